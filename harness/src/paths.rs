//! Locations. By default the framework lives in /verif and checks /repo; both can be
//! redirected (VERIF_ROOT, VERIF_REPO) so that experiments can run on scratch copies in the
//! background without touching the real directories. Registered checks never set them.
pub fn verif_root() -> String {
    std::env::var("VERIF_ROOT").unwrap_or_else(|_| "/verif".to_string())
}
pub fn repo_root() -> String {
    std::env::var("VERIF_REPO").unwrap_or_else(|_| "/repo".to_string())
}
