//! Helpers over the instrumented-Merlin event log.
use ark_ff::PrimeField;
pub use merlin::instr::Event;
use rand_chacha::ChaChaRng;
use rand_core::SeedableRng;

/// Challenge bytes -> field element, as the wire protocol defines it
/// (32 bytes seed a ChaCha stream from which a uniform field element is sampled).
pub fn challenge_to_f<F: PrimeField>(out: &[u8]) -> Option<F> {
    if out.len() != 32 {
        return None;
    }
    let mut seed = [0u8; 32];
    seed.copy_from_slice(out);
    let mut r = ChaChaRng::from_seed(seed);
    Some(F::rand(&mut r))
}

/// Events on one transcript id only.
pub fn on_id(log: &[Event], id: u64) -> Vec<Event> {
    log.iter()
        .filter(|e| match e {
            Event::New { id: i, .. } => *i == id,
            Event::Append { id: i, .. } => *i == id,
            Event::Challenge { id: i, .. } => *i == id,
            Event::BuildRng { id: i, .. } => *i == id,
            Event::Clone { from, .. } => *from == id,
            _ => false,
        })
        .cloned()
        .collect()
}

pub fn label_of(e: &Event) -> Option<&[u8]> {
    match e {
        Event::Append { label, .. } | Event::Challenge { label, .. } | Event::New { label, .. } => Some(label),
        _ => None,
    }
}

/// All challenge events (label, output) on transcript `id`, in order.
pub fn challenges(log: &[Event], id: u64) -> Vec<(Vec<u8>, Vec<u8>)> {
    log.iter()
        .filter_map(|e| match e {
            Event::Challenge { id: i, label, out } if *i == id => Some((label.clone(), out.clone())),
            _ => None,
        })
        .collect()
}

pub fn event_short(e: &Event) -> String {
    let l = |b: &Vec<u8>| String::from_utf8_lossy(b).to_string();
    match e {
        Event::New { id, label } => format!("new#{}({})", id, l(label)),
        Event::Clone { from, to } => format!("clone#{}->{}", from, to),
        Event::Append { id, label, msg } => format!("#{} append {} [{}B]", id, l(label), msg.len()),
        Event::Challenge { id, label, out } => format!("#{} challenge {} [{}B]", id, l(label), out.len()),
        Event::BuildRng { id, rng_id } => format!("#{} build_rng->r{}", id, rng_id),
        Event::Rekey { rng_id, label, witness } => format!("r{} rekey {} [{}B]", rng_id, l(label), witness.len()),
        Event::Finalize { rng_id, external } => format!("r{} finalize [{}B]", rng_id, external.len()),
        Event::RngFill { rng_id, out } => format!("r{} fill [{}B]", rng_id, out.len()),
    }
}
