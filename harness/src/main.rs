fn main(){}
