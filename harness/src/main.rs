//! verif-harness: property-based checks of ark-bulletproofs (see /verif/DESIGN.md).
//!
//!   verif-harness <ID> <quick|thorough>        run the check, write evidence/<ID>.json
//!   verif-harness replay <ID> <file>            re-execute one saved case
#![allow(clippy::too_many_arguments, clippy::type_complexity)]

pub mod alloc;
pub mod choices;
pub mod compensate;
pub mod cubic;
pub mod curves;
pub mod drive;
pub mod drive_ref;
pub mod fixtures;
pub mod kat;
pub mod mirror;
pub mod ownprover;
pub mod paths;
pub mod model;
pub mod program;
pub mod props;
pub mod refgens;
pub mod refverify;
pub mod script;
pub mod runner;
pub mod scalars;
pub mod schedule;
pub mod tlog;

#[global_allocator]
static GLOBAL: alloc::Counting = alloc::Counting;

fn main() {
    drive::install_panic_hook();
    let args: Vec<String> = std::env::args().collect();
    let seed: u64 = std::env::var("VERIF_SEED").ok().and_then(|s| s.parse().ok()).unwrap_or(0);
    if args.len() >= 4 && args[1] == "replay" {
        std::process::exit(props::replay(&args[2], &args[3]));
    }
    if args.len() >= 5 && args[1] == "gens-digest" {
        println!("{}", props::c12::digest_cli(&args[2], args[3].parse().unwrap(), args[4].parse().unwrap()));
        return;
    }
    if args.len() >= 2 && args[1] == "record-fixtures" {
        fixtures::record_all();
        println!("fixtures written to {}", fixtures::dir());
        return;
    }
    if args.len() < 2 {
        eprintln!("usage: verif-harness <ID> <quick|thorough> | replay <ID> <file>");
        std::process::exit(2);
    }
    let tier = args
        .get(2)
        .cloned()
        .or_else(|| std::env::var("VERIF_TIER").ok())
        .unwrap_or_else(|| "quick".into());
    if tier != "quick" && tier != "thorough" {
        eprintln!("unknown tier {}", tier);
        std::process::exit(2);
    }
    if let Err(e) = kat::check() {
        println!("MACHINERY-ERROR property={} instrumented merlin is not bit-compatible with the registry crate: {}", args[1], e);
        std::process::exit(2);
    }
    // a panic of the harness itself is a machinery error, never a verdict
    let code = match std::panic::catch_unwind(|| props::run(&args[1], &tier, seed)) {
        Ok(c) => c,
        Err(_) => {
            println!("MACHINERY-ERROR property={} the harness panicked (see stderr)", args[1]);
            2
        }
    };
    std::process::exit(code);
}
