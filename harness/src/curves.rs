//! The three supported curves and a dispatch macro.
use ark_ec::AffineRepr;

pub type SecqG = ark_secq256k1::Affine;
pub type ZorroG = ark_bulletproofs::curve::zorro::G1Affine;
pub type EdG = ark_curve25519::EdwardsAffine;

#[derive(Clone, Copy, PartialEq, Eq, Debug, Hash, PartialOrd, Ord)]
pub enum Curve {
    Secq,
    Zorro,
    Ed,
}

impl Curve {
    pub const ALL: [Curve; 3] = [Curve::Secq, Curve::Zorro, Curve::Ed];
    pub fn name(self) -> &'static str {
        match self {
            Curve::Secq => "secq256k1",
            Curve::Zorro => "zorro",
            Curve::Ed => "curve25519",
        }
    }
    pub fn from_name(s: &str) -> Option<Curve> {
        Curve::ALL.iter().copied().find(|c| c.name() == s)
    }
    pub fn index(self) -> usize {
        self as usize
    }
}

/// A curve usable by the harness: the type under test plus its twin in the frozen
/// reference revision (identical for the two external curves, a distinct type for zorro).
pub trait CurveTag: AffineRepr + 'static {
    const CURVE: Curve;
    type RefG: AffineRepr;
    /// size of a compressed point / a scalar in bytes
    const PT: usize;
    const SC: usize;
    /// cofactor of the curve group
    const COFACTOR: u64;
    /// the other curve point with the same x-coordinate (−P on the Weierstrass curves, (x, −y)
    /// on the twisted Edwards curve); None for points of order ≤ 2 and the identity
    fn same_x_other_y(p: &Self) -> Option<Self>;
    /// a different point *object* that is not on the curve but has the same compressed encoding
    /// as `p` (same x, another y of the same sign class); None where the encoding leaves no room
    fn off_curve_twin(p: &Self) -> Option<Self>;
}

fn sw_twin<P: ark_ec::short_weierstrass::SWCurveConfig>(p: &ark_ec::short_weierstrass::Affine<P>) -> Option<ark_ec::short_weierstrass::Affine<P>> {
    use ark_ff::One;
    use ark_serialize::CanonicalSerialize;
    use ark_std::Zero;
    if p.infinity {
        return None;
    }
    let mut want = vec![];
    p.serialize_compressed(&mut want).ok()?;
    for k in 1u64..20 {
        let mut y = p.y;
        for _ in 0..k {
            y += <P::BaseField as One>::one();
        }
        let q = ark_ec::short_weierstrass::Affine::<P>::new_unchecked(p.x, y);
        let mut got = vec![];
        if q.serialize_compressed(&mut got).is_ok() && got == want && !q.is_on_curve() && y != p.y && !y.is_zero() {
            return Some(q);
        }
    }
    None
}

fn sw_mirror<G: AffineRepr>(p: &G) -> Option<G> {
    use ark_ec::CurveGroup;
    let q = (-p.into_group()).into_affine();
    if p.is_zero() || q == *p {
        None
    } else {
        Some(q)
    }
}

impl CurveTag for SecqG {
    const CURVE: Curve = Curve::Secq;
    type RefG = ark_secq256k1::Affine;
    const PT: usize = 33;
    const SC: usize = 32;
    const COFACTOR: u64 = 1;
    fn same_x_other_y(p: &Self) -> Option<Self> {
        sw_mirror(p)
    }
    fn off_curve_twin(p: &Self) -> Option<Self> {
        sw_twin(p)
    }
}
impl CurveTag for ZorroG {
    const CURVE: Curve = Curve::Zorro;
    type RefG = ark_bulletproofs_ref::curve::zorro::G1Affine;
    const PT: usize = 33;
    const SC: usize = 32;
    const COFACTOR: u64 = 1;
    fn same_x_other_y(p: &Self) -> Option<Self> {
        sw_mirror(p)
    }
    fn off_curve_twin(p: &Self) -> Option<Self> {
        sw_twin(p)
    }
}
impl CurveTag for EdG {
    const CURVE: Curve = Curve::Ed;
    type RefG = ark_curve25519::EdwardsAffine;
    const PT: usize = 32;
    const SC: usize = 32;
    const COFACTOR: u64 = 8;
    fn same_x_other_y(p: &Self) -> Option<Self> {
        if p.is_zero() || p.y == -p.y {
            return None;
        }
        let q = EdG::new_unchecked(p.x, -p.y);
        if q.is_on_curve() {
            Some(q)
        } else {
            None
        }
    }
    fn off_curve_twin(p: &Self) -> Option<Self> {
        // the compressed form is y and the sign of x: another x of the same sign
        use ark_serialize::CanonicalSerialize;
        let mut want = vec![];
        p.serialize_compressed(&mut want).ok()?;
        let mut x = p.x;
        for _ in 0..20 {
            x += <ark_curve25519::Fq as ark_ff::One>::one();
            let q = EdG::new_unchecked(x, p.y);
            let mut got = vec![];
            if q.serialize_compressed(&mut got).is_ok() && got == want && !q.is_on_curve() {
                return Some(q);
            }
        }
        None
    }
}

/// `with_curve!(curve, G => expr)` evaluates `expr` with the type alias `G` bound.
#[macro_export]
macro_rules! with_curve {
    ($c:expr, $G:ident => $body:expr) => {
        match $c {
            $crate::curves::Curve::Secq => {
                type $G = $crate::curves::SecqG;
                $body
            }
            $crate::curves::Curve::Zorro => {
                type $G = $crate::curves::ZorroG;
                $body
            }
            $crate::curves::Curve::Ed => {
                type $G = $crate::curves::EdG;
                $body
            }
        }
    };
}
