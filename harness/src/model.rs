//! The circuit model: an independent reference interpreter of a program, written from the
//! `ConstraintSystem` trait documentation. It tracks the allocation state machine, the
//! assignment, and the constraint rows with concrete coefficients, and answers
//! "is every constraint and every gate satisfied?".
use crate::program::{Lc, Sc, Var};
use ark_ff::PrimeField;

#[derive(Clone, Debug)]
pub struct Row<F: PrimeField> {
    pub terms: Vec<(Var, F)>,
    /// provenance, for classification
    pub phase2: bool,
    pub implicit: bool,
}

#[derive(Clone, Debug, PartialEq, Eq, Hash)]
pub enum Violation {
    Row { index: usize, phase2: bool, implicit: bool, only_const: bool, only_committed: bool },
    Gate { index: usize, phase2: bool },
}

#[derive(Clone, Debug)]
pub struct Model<F: PrimeField> {
    pub a_l: Vec<F>,
    pub a_r: Vec<F>,
    pub a_o: Vec<F>,
    pub v: Vec<F>,
    pub v_blind: Vec<F>,
    pub rows: Vec<Row<F>>,
    pub pending: Option<usize>,
    /// number of gates at the phase switch (None while in phase 1)
    pub n1: Option<usize>,
    pub regs: Vec<F>,
}

impl<F: PrimeField> Model<F> {
    pub fn new() -> Self {
        Model {
            a_l: vec![],
            a_r: vec![],
            a_o: vec![],
            v: vec![],
            v_blind: vec![],
            rows: vec![],
            pending: None,
            n1: None,
            regs: vec![],
        }
    }
    pub fn gates(&self) -> usize {
        self.a_l.len()
    }
    pub fn in_phase2(&self) -> bool {
        self.n1.is_some()
    }
    pub fn sc(&self, s: &Sc) -> F {
        match s {
            Sc::C(c) => c.to_f(),
            Sc::MulReg(c, r) => c.to_f::<F>() * self.regs.get(*r).copied().unwrap_or(F::one()),
            Sc::AddReg(c, r) => c.to_f::<F>() + self.regs.get(*r).copied().unwrap_or(F::zero()),
            Sc::Prod(v) => v.iter().map(|c| c.to_f::<F>()).product(),
        }
    }
    pub fn val(&self, v: &Var) -> F {
        match v {
            Var::Com(i) => self.v[*i],
            Var::L(i) => self.a_l[*i],
            Var::R(i) => self.a_r[*i],
            Var::O(i) => self.a_o[*i],
            Var::One => F::one(),
        }
    }
    pub fn resolve(&self, lc: &Lc) -> Vec<(Var, F)> {
        lc.iter().map(|(v, c)| (*v, self.sc(c))).collect()
    }
    pub fn eval_terms(&self, t: &[(Var, F)]) -> F {
        t.iter().map(|(v, c)| *c * self.val(v)).sum()
    }
    pub fn commit(&mut self, v: F, blind: F) -> Var {
        self.v.push(v);
        self.v_blind.push(blind);
        Var::Com(self.v.len() - 1)
    }
    /// single allocation: two consecutive ones share a gate as left and right wire
    pub fn alloc(&mut self, val: F) -> Var {
        match self.pending {
            None => {
                let i = self.gates();
                self.a_l.push(val);
                self.a_r.push(F::zero());
                self.a_o.push(F::zero());
                self.pending = Some(i);
                Var::L(i)
            }
            Some(i) => {
                self.pending = None;
                self.a_r[i] = val;
                self.a_o[i] = self.a_l[i] * val;
                Var::R(i)
            }
        }
    }
    pub fn alloc_mul(&mut self, l: F, r: F) -> (Var, Var, Var) {
        let i = self.gates();
        self.a_l.push(l);
        self.a_r.push(r);
        self.a_o.push(l * r);
        (Var::L(i), Var::R(i), Var::O(i))
    }
    /// multiply(left, right): a new gate whose inputs are constrained to the two expressions
    pub fn mul(&mut self, left: Vec<(Var, F)>, right: Vec<(Var, F)>) -> (Var, Var, Var) {
        let l = self.eval_terms(&left);
        let r = self.eval_terms(&right);
        let (lv, rv, ov) = self.alloc_mul(l, r);
        let p2 = self.in_phase2();
        let mut lt = left;
        lt.push((lv, -F::one()));
        let mut rt = right;
        rt.push((rv, -F::one()));
        self.rows.push(Row { terms: lt, phase2: p2, implicit: true });
        self.rows.push(Row { terms: rt, phase2: p2, implicit: true });
        (lv, rv, ov)
    }
    pub fn constrain(&mut self, terms: Vec<(Var, F)>) {
        let p2 = self.in_phase2();
        self.rows.push(Row { terms, phase2: p2, implicit: false });
    }
    /// the phase switch: an open half-gate is closed with right = out = 0 and is never
    /// paired with an allocation of the next phase
    pub fn enter_phase2(&mut self) {
        if self.n1.is_none() {
            self.n1 = Some(self.gates());
            self.pending = None;
        }
    }
    pub fn tamper(&mut self, gate: usize, dl: F, dr: F, dout: F) -> Option<(F, F, F)> {
        if gate >= self.gates() {
            return None;
        }
        self.a_l[gate] += dl;
        self.a_r[gate] += dr;
        self.a_o[gate] += dout;
        Some((self.a_l[gate], self.a_r[gate], self.a_o[gate]))
    }
    pub fn n1_final(&self) -> usize {
        self.n1.unwrap_or(self.gates())
    }
    /// everything the final assignment violates
    pub fn violations(&self) -> Vec<Violation> {
        let mut out = vec![];
        for (i, r) in self.rows.iter().enumerate() {
            if !self.eval_terms(&r.terms).is_zero() {
                let nz: Vec<&(Var, F)> = r.terms.iter().filter(|(_, c)| !c.is_zero()).collect();
                let only_const = nz.iter().all(|(v, _)| matches!(v, Var::One));
                let only_committed =
                    !only_const && nz.iter().all(|(v, _)| matches!(v, Var::One | Var::Com(_)));
                out.push(Violation::Row {
                    index: i,
                    phase2: r.phase2,
                    implicit: r.implicit,
                    only_const,
                    only_committed,
                });
            }
        }
        let n1 = self.n1_final();
        for i in 0..self.gates() {
            if self.a_l[i] * self.a_r[i] != self.a_o[i] {
                out.push(Violation::Gate { index: i, phase2: i >= n1 });
            }
        }
        out
    }
    pub fn satisfied(&self) -> bool {
        self.violations().is_empty()
    }
    /// Flattened weights for a challenge z: row q (0-based) is weighted by z^(q+1).
    /// Returns (wL, wR, wO, wV, wc) with the sign conventions of the protocol:
    /// wV and wc carry the negated coefficients.
    pub fn flatten(&self, z: F) -> (Vec<F>, Vec<F>, Vec<F>, Vec<F>, F) {
        let n = self.gates();
        let mut wl = vec![F::zero(); n];
        let mut wr = vec![F::zero(); n];
        let mut wo = vec![F::zero(); n];
        let mut wv = vec![F::zero(); self.v.len()];
        let mut wc = F::zero();
        let mut zq = z;
        for r in &self.rows {
            for (var, c) in &r.terms {
                match var {
                    Var::L(i) => wl[*i] += zq * c,
                    Var::R(i) => wr[*i] += zq * c,
                    Var::O(i) => wo[*i] += zq * c,
                    Var::Com(i) => wv[*i] -= zq * c,
                    Var::One => wc -= zq * c,
                }
            }
            zq *= z;
        }
        (wl, wr, wo, wv, wc)
    }
}
