//! Scripted prover randomness: decode the recorded `TranscriptRng` output stream into field
//! draws (by replaying it through the real sampler `F::rand`) and encode a chosen list of
//! draws back into a byte script the sampler will accept.
use ark_ff::PrimeField;
use merlin::instr::Event;
use rand_core::RngCore;

/// serves recorded bytes; flags exhaustion instead of failing
struct ByteRng<'a> {
    data: &'a [u8],
    pos: usize,
    exhausted: bool,
}

impl<'a> RngCore for ByteRng<'a> {
    fn next_u32(&mut self) -> u32 {
        let mut b = [0u8; 4];
        self.fill_bytes(&mut b);
        u32::from_le_bytes(b)
    }
    fn next_u64(&mut self) -> u64 {
        let mut b = [0u8; 8];
        self.fill_bytes(&mut b);
        u64::from_le_bytes(b)
    }
    fn fill_bytes(&mut self, dest: &mut [u8]) {
        for d in dest.iter_mut() {
            if self.pos < self.data.len() {
                *d = self.data[self.pos];
                self.pos += 1;
            } else {
                self.exhausted = true;
                *d = 0;
            }
        }
    }
    fn try_fill_bytes(&mut self, dest: &mut [u8]) -> Result<(), rand_core::Error> {
        self.fill_bytes(dest);
        Ok(())
    }
}

/// all bytes the transcript RNG produced, in order
pub fn rng_stream(log: &[Event]) -> Vec<u8> {
    let mut v = vec![];
    for e in log {
        if let Event::RngFill { out, .. } = e {
            v.extend_from_slice(out);
        }
    }
    v
}

/// The draws the prover obtained: the stream replayed through the real sampler.
/// None if the stream does not split into whole draws.
pub fn decode_draws<F: PrimeField>(stream: &[u8]) -> Option<Vec<F>> {
    let mut r = ByteRng { data: stream, pos: 0, exhausted: false };
    let mut out = vec![];
    while r.pos < stream.len() {
        let f = F::rand(&mut r);
        if r.exhausted {
            return None;
        }
        out.push(f);
    }
    Some(out)
}

/// Byte script that makes the sampler return exactly `draws`: each value v is written as the
/// little-endian limbs of v·2^256 (the Montgomery form the sampler reads), which is below the
/// modulus, so no candidate is rejected.
pub fn encode_draws<F: PrimeField>(draws: &[F]) -> Option<Vec<u8>> {
    let mut out = vec![];
    let r = F::from(2u64).pow([256u64]);
    for d in draws {
        let mont = *d * r;
        let limbs = mont.into_bigint();
        let mut bytes = vec![];
        for l in limbs.as_ref() {
            bytes.extend_from_slice(&l.to_le_bytes());
        }
        if bytes.len() != 32 {
            return None;
        }
        out.extend_from_slice(&bytes);
    }
    // self-check: the sampler must give the draws back
    match decode_draws::<F>(&out) {
        Some(d) if d == draws => Some(out),
        _ => None,
    }
}
