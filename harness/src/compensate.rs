//! Compensating edits: pairs of proof fields are changed together so that the verifier's
//! combined equation would be unaffected *if its coefficients stayed what they were in the
//! honest run*. With a sound Fiat–Shamir schedule every such edit changes a later challenge
//! and is rejected; an element that no later challenge depends on (or a combination weight
//! derived too early) makes one of them pass. The coefficients are taken from the honest
//! verifier run's log (x, u, u_j by position; r from the forked transcript).
use crate::mirror::ProofMirror;
use crate::refverify::Challenges;
use ark_ec::{AffineRepr, CurveGroup};
use ark_ff::{Field, PrimeField};

type Fr<G> = <G as AffineRepr>::ScalarField;

fn mul<G: AffineRepr>(p: &G, s: &Fr<G>) -> G::Group {
    p.mul_bigint(s.into_bigint())
}

/// coefficient of point slot i (0..11 fixed points, then L_j, R_j) in the combined check,
/// for the slots whose coefficient is known exactly from the main-transcript challenges
fn coeff<G: AffineRepr>(i: usize, k: usize, ch: &Challenges<Fr<G>>) -> Option<Fr<G>> {
    let x = ch.x;
    let u = ch.u;
    Some(match i {
        0 => x,
        1 => x * x,
        2 => x * x * x,
        3 => u * x,
        4 => u * x * x,
        5 => u * x * x * x,
        j if j >= 11 && j < 11 + k => ch.rounds[j - 11] * ch.rounds[j - 11],
        j if j >= 11 + k && j < 11 + 2 * k => {
            let inv = ch.rounds[j - 11 - k].inverse()?;
            inv * inv
        }
        _ => return None,
    })
}

/// exponent i of x for T-slot (6..11): coefficient r·x^i
fn t_exp(slot: usize) -> Option<u64> {
    [(6usize, 1u64), (7, 3), (8, 4), (9, 5), (10, 6)].iter().find(|(s, _)| *s == slot).map(|(_, e)| *e)
}

/// `sel` selects the edit (any value; reduced internally); `d`, `D` the offset scalar / point.
#[allow(non_snake_case)]
pub fn compensating_edit<G: AffineRepr>(
    m0: &ProofMirror<G>,
    ch: &Challenges<Fr<G>>,
    r: Option<Fr<G>>,
    B_blinding: &G,
    sel: usize,
    sel2: usize,
    d: Fr<G>,
    D: G,
) -> Option<(String, ProofMirror<G>)> {
    let mut m = m0.clone();
    let k = m.ipp.L.len();
    if ch.rounds.len() != k || m.ipp.R.len() != k {
        return None;
    }
    let x = ch.x;
    match sel % 6 {
        // two points with exactly known coefficients
        0 | 1 => {
            let slots: Vec<usize> = (0..6).chain(11..11 + 2 * k).collect();
            let i = slots[sel2 % slots.len()];
            let mut j = slots[(sel2 / slots.len()) % slots.len()];
            if sel % 6 == 1 && k > 0 {
                // the last inner-product round: no later challenge but its own
                j = 11 + 2 * k - 1;
                if i == j {
                    return None;
                }
            }
            if i == j {
                return None;
            }
            let (si, sj) = (coeff::<G>(i, k, ch)?, coeff::<G>(j, k, ch)?);
            let ratio = si * sj.inverse()?;
            let pi = (m.point_mut(i).into_group() + D.into_group()).into_affine();
            let pj = (m.point_mut(j).into_group() - mul(&D, &ratio)).into_affine();
            let name = format!("{} += D, {} -= (c_i/c_j)·D", m0.point_name(i), m0.point_name(j));
            *m.point_mut(i) = pi;
            *m.point_mut(j) = pj;
            Some((name, m))
        }
        // two polynomial commitments (coefficients r·x^i, r·x^j)
        2 => {
            let ts = [6usize, 7, 8, 9, 10];
            let i = ts[sel2 % 5];
            let j = ts[(sel2 / 5) % 5];
            if i == j {
                return None;
            }
            let ratio = x.pow([t_exp(i)?]) * x.pow([t_exp(j)?]).inverse()?;
            let pi = (m.point_mut(i).into_group() + D.into_group()).into_affine();
            let pj = (m.point_mut(j).into_group() - mul(&D, &ratio)).into_affine();
            let name = format!("{} += D, {} -= x^(i-j)·D", m0.point_name(i), m0.point_name(j));
            *m.point_mut(i) = pi;
            *m.point_mut(j) = pj;
            Some((name, m))
        }
        // the two published blinding scalars, weighted by the verifier's combination weight r
        3 => {
            let r = r?;
            m.e_blinding += r * d;
            m.t_x_blinding -= d;
            Some(("e_blinding += r·d, t_x_blinding -= d".into(), m))
        }
        // a commitment's blinding against e_blinding
        4 => {
            let i = sel2 % 6;
            let c = coeff::<G>(i, k, ch)?;
            *m.point_mut(i) = (m.point_mut(i).into_group() + mul(B_blinding, &d)).into_affine();
            m.e_blinding += c * d;
            Some((format!("{} += d·B_blinding, e_blinding += c_i·d", m0.point_name(i)), m))
        }
        // a polynomial commitment's blinding against t_x_blinding
        _ => {
            let ts = [6usize, 7, 8, 9, 10];
            let i = ts[sel2 % 5];
            *m.point_mut(i) = (m.point_mut(i).into_group() + mul(B_blinding, &d)).into_affine();
            m.t_x_blinding += x.pow([t_exp(i)?]) * d;
            Some((format!("{} += d·B_blinding, t_x_blinding += x^i·d", m0.point_name(i)), m))
        }
    }
}

/// the verifier's combination weight: the challenge drawn from a fork of the main transcript
pub fn fork_challenge<F: PrimeField>(log: &[merlin::instr::Event], main_id: u64) -> Option<F> {
    use merlin::instr::Event;
    let forks: Vec<u64> = log.iter().filter_map(|e| if let Event::Clone { from, to } = e { if *from == main_id { Some(*to) } else { None } } else { None }).collect();
    for e in log {
        if let Event::Challenge { id, out, .. } = e {
            if forks.contains(id) {
                return crate::tlog::challenge_to_f::<F>(out);
            }
        }
    }
    None
}
