//! Bit-compatibility of the instrumented Merlin with the registry crate: replays the
//! known-answer vectors emitted by tools/merlin-kat (pristine merlin 3.0.0, no patch).
use merlin::Transcript;
use rand_chacha::ChaChaRng;
use rand_core::{RngCore, SeedableRng};

fn leak(b: &[u8]) -> &'static [u8] {
    Box::leak(b.to_vec().into_boxed_slice())
}

pub fn check() -> Result<usize, String> {
    let path = format!("{}/fixtures/merlin_kat.txt", crate::paths::verif_root());
    let path = path.as_str();
    let text = std::fs::read_to_string(path).map_err(|e| format!("{}: {}", path, e))?;
    let mut t: Option<Transcript> = None;
    let mut stack: Vec<Transcript> = vec![];
    let mut rng: Option<merlin::TranscriptRng> = None;
    let mut checked = 0;
    for (ln, line) in text.lines().enumerate() {
        let p: Vec<&str> = line.split_whitespace().collect();
        let h = |s: &str| if s == "-" { vec![] } else { hex::decode(s).unwrap_or_default() };
        let err = |m: &str| format!("merlin KAT line {}: {}", ln + 1, m);
        match p.first().copied() {
            Some("new") => {
                t = Some(Transcript::new(leak(&h(p.get(1).copied().unwrap_or("")))));
                stack.clear();
            }
            Some("append") => t.as_mut().ok_or(err("no transcript"))?.append_message(leak(&h(p[1])), &h(p.get(2).copied().unwrap_or(""))),
            Some("u64") => t.as_mut().ok_or(err("no transcript"))?.append_u64(leak(&h(p[1])), p[2].parse().map_err(|_| err("u64"))?),
            Some("challenge") => {
                let n: usize = p[2].parse().map_err(|_| err("len"))?;
                let mut out = vec![0u8; n];
                t.as_mut().ok_or(err("no transcript"))?.challenge_bytes(leak(&h(p[1])), &mut out);
                if hex::encode(&out) != p[4] {
                    return Err(err("challenge output differs from the registry crate"));
                }
                checked += 1;
            }
            Some("clone") => stack.push(t.as_ref().ok_or(err("no transcript"))?.clone()),
            Some("back") => {
                if let Some(prev) = stack.pop() {
                    t = Some(prev);
                }
            }
            Some("rng") => {
                let nrek: usize = p[1].parse().map_err(|_| err("nrek"))?;
                let mut b = t.as_ref().ok_or(err("no transcript"))?.build_rng();
                for i in 0..nrek {
                    // a zero-length witness prints as an empty field
                    let lab = h(p[2 + 2 * i]);
                    let wit = p.get(3 + 2 * i).map(|s| h(s)).unwrap_or_default();
                    b = b.rekey_with_witness_bytes(leak(&lab), &wit);
                }
                let sb: u8 = p.last().unwrap().parse().map_err(|_| err("seed"))?;
                let mut ext = ChaChaRng::from_seed([sb; 32]);
                rng = Some(b.finalize(&mut ext));
            }
            Some("fill") => {
                let n: usize = p[1].parse().map_err(|_| err("len"))?;
                let mut out = vec![0u8; n];
                rng.as_mut().ok_or(err("no rng"))?.fill_bytes(&mut out);
                if hex::encode(&out) != p[3] {
                    return Err(err("TranscriptRng output differs from the registry crate"));
                }
                checked += 1;
            }
            _ => {}
        }
    }
    if checked < 100 {
        return Err("merlin KAT file too short".into());
    }
    Ok(checked)
}
