//! Driver for the frozen reference revision (vendor/refrev = /repo@b4846a6, crate
//! `ark-bulletproofs-ref`). Bridged to the harness by bytes: commitments and proofs cross the
//! boundary in their compressed encodings, so that the zorro types of the two crates (distinct
//! Rust types, identical wire format) never have to unify.
use crate::curves::CurveTag;
use crate::drive::{guarded, CountingRng};
use crate::model::Model;
use crate::program::{Op, Program, Var, CLABELS, TLABELS, ULABELS};
use ark_bulletproofs_ref::r1cs::{
    ConstraintSystem, LinearCombination, Prover, R1CSProof, RandomizableConstraintSystem, RandomizedConstraintSystem, Variable, Verifier,
};
use ark_bulletproofs_ref::{BulletproofGens, PedersenGens};
use ark_ec::AffineRepr;
use ark_ff::Zero;
use ark_serialize::{CanonicalDeserialize, CanonicalSerialize};
use merlin::instr::{self, Event};
use merlin::Transcript;
use std::cell::{Cell, RefCell};
use std::rc::Rc;

type Fr<G> = <G as AffineRepr>::ScalarField;

struct RCtx<G: AffineRepr> {
    is_prover: bool,
    model: RefCell<Model<Fr<G>>>,
    commitments: RefCell<Vec<G>>,
    next_commit: Cell<usize>,
}

fn var<F: ark_ff::PrimeField>(v: &Var) -> Variable<F> {
    match v {
        Var::Com(i) => Variable::Committed(*i),
        Var::L(i) => Variable::MultiplierLeft(*i),
        Var::R(i) => Variable::MultiplierRight(*i),
        Var::O(i) => Variable::MultiplierOutput(*i),
        Var::One => Variable::One(),
    }
}

fn lc<F: ark_ff::PrimeField>(t: &[(Var, F)]) -> LinearCombination<F> {
    t.iter().map(|(v, c)| (var(v), *c)).collect()
}

fn run_common<G: AffineRepr, CS: ConstraintSystem<Fr<G>>>(cs: &mut CS, ops: &[Op], ctx: &RCtx<G>, chal: &dyn Fn(&mut CS, &'static [u8]) -> Fr<G>) {
    for op in ops {
        match op {
            Op::Alloc { val } => {
                let v = {
                    let mut m = ctx.model.borrow_mut();
                    let v = m.sc(val);
                    m.alloc(v);
                    v
                };
                cs.allocate(if ctx.is_prover { Some(v) } else { None }).expect("allocate");
            }
            Op::AllocMul { l, r } => {
                let (a, b) = {
                    let mut m = ctx.model.borrow_mut();
                    let (a, b) = (m.sc(l), m.sc(r));
                    m.alloc_mul(a, b);
                    (a, b)
                };
                cs.allocate_multiplier(if ctx.is_prover { Some((a, b)) } else { None }).expect("allocate_multiplier");
            }
            Op::Mul { left, right } => {
                let (lt, rt) = {
                    let m = ctx.model.borrow();
                    (m.resolve(left), m.resolve(right))
                };
                let (ll, rl) = (lc(&lt), lc(&rt));
                ctx.model.borrow_mut().mul(lt, rt);
                cs.multiply(ll, rl);
            }
            Op::Constrain { lc: l, err, base } => {
                let terms = {
                    let m = ctx.model.borrow();
                    let mut t = m.resolve(l);
                    let k = match base {
                        Some(b) => m.eval_terms(&m.resolve(b)),
                        None => m.eval_terms(&t),
                    };
                    let e: Fr<G> = err.as_ref().map(|e| e.to_f()).unwrap_or(Fr::<G>::zero());
                    t.push((Var::One, e - k));
                    t
                };
                let real = lc(&terms);
                ctx.model.borrow_mut().constrain(terms);
                cs.constrain(real);
            }
            Op::TData { label, bytes } => cs.transcript().append_message(ULABELS[*label as usize], bytes),
            Op::Challenge { label } => {
                let c = chal(cs, CLABELS[*label as usize]);
                ctx.model.borrow_mut().regs.push(c);
            }
            Op::Tamper { .. } => panic!("harness: the reference revision has no tamper hook"),
            Op::Commit { .. } | Op::Closure(_) => unreachable!(),
        }
    }
}

trait RefRole<G: AffineRepr>: RandomizableConstraintSystem<Fr<G>> {
    fn do_commit(&mut self, ctx: &RCtx<G>, v: Fr<G>, b: Fr<G>);
}
impl<'g, G: AffineRepr, T: std::borrow::BorrowMut<Transcript>> RefRole<G> for Prover<'g, G, T> {
    fn do_commit(&mut self, ctx: &RCtx<G>, v: Fr<G>, b: Fr<G>) {
        let (c, _) = self.commit(v, b);
        ctx.commitments.borrow_mut().push(c);
    }
}
impl<G: AffineRepr, T: std::borrow::BorrowMut<Transcript>> RefRole<G> for Verifier<G, T> {
    fn do_commit(&mut self, ctx: &RCtx<G>, _: Fr<G>, _: Fr<G>) {
        let i = ctx.next_commit.get();
        ctx.next_commit.set(i + 1);
        let c = ctx.commitments.borrow()[i];
        self.commit(c);
    }
}

fn run_phase1<G: AffineRepr + 'static, CS: RefRole<G>>(cs: &mut CS, ops: &[Op], ctx: &Rc<RCtx<G>>) {
    for op in ops {
        match op {
            Op::Commit { v, blind } => {
                let (vf, bf): (Fr<G>, Fr<G>) = (v.to_f(), blind.to_f());
                ctx.model.borrow_mut().commit(vf, bf);
                cs.do_commit(ctx, vf, bf);
            }
            Op::Closure(body) => {
                let body: Rc<Vec<Op>> = Rc::new(body.clone());
                let c = ctx.clone();
                cs.specify_randomized_constraints(move |rcs| {
                    c.model.borrow_mut().enter_phase2();
                    run_common::<G, CS::RandomizedCS>(rcs, &body, &c, &|cs, l| cs.challenge_scalar(l));
                    Ok(())
                })
                .expect("specify_randomized_constraints");
            }
            other => run_common::<G, CS>(cs, std::slice::from_ref(other), ctx, &|_, _| panic!("challenge in phase 1")),
        }
    }
}

fn transcript(prog: &Program) -> Transcript {
    let mut t = Transcript::new(TLABELS[prog.tlabel as usize]);
    for (l, b) in &prog.pre {
        t.append_message(ULABELS[*l as usize], b);
    }
    t
}

pub fn enc<T: CanonicalSerialize>(x: &T) -> Vec<u8> {
    let mut v = vec![];
    x.serialize_compressed(&mut v).unwrap();
    v
}

/// Prove with the reference revision. Returns (proof bytes, commitment encodings).
pub fn ref_prove<G: CurveTag>(prog: &Program, cap: usize) -> Result<(Vec<u8>, Vec<Vec<u8>>), String> {
    let pc = PedersenGens::<G::RefG>::default();
    let gens = BulletproofGens::<G::RefG>::new(cap, 1);
    let ctx = Rc::new(RCtx::<G::RefG> { is_prover: true, model: RefCell::new(Model::new()), commitments: RefCell::new(vec![]), next_commit: Cell::new(0) });
    let mut rng = CountingRng::new(prog.seed, 1);
    let mut t = transcript(prog);
    let r = guarded(|| {
        let mut p = Prover::new(&pc, &mut t);
        run_phase1(&mut p, &prog.ops, &ctx);
        p.prove(&mut rng, &gens)
    })?;
    let proof = r.map_err(|e| format!("{:?}", e))?;
    let bytes = proof.to_bytes().map_err(|e| format!("{:?}", e))?;
    let coms = ctx.commitments.borrow().iter().map(enc).collect();
    Ok((bytes, coms))
}

pub struct RefVerify {
    pub accepted: bool,
    pub verdict: String,
    pub log: Vec<Event>,
    pub main_id: u64,
}

/// Verify with the reference revision (optionally recording the transcript log).
pub fn ref_verify<G: CurveTag>(prog: &Program, commitments: &[Vec<u8>], proof: &[u8], cap: usize, record: bool) -> RefVerify {
    let pc = PedersenGens::<G::RefG>::default();
    let gens = BulletproofGens::<G::RefG>::new(cap, 1);
    let coms: Option<Vec<G::RefG>> = commitments.iter().map(|b| <G::RefG>::deserialize_compressed(&b[..]).ok()).collect();
    let mut t = transcript(prog);
    let main_id = t.instr_id();
    let Some(coms) = coms else { return RefVerify { accepted: false, verdict: "commitment does not decode".into(), log: vec![], main_id } };
    let Ok(pf) = R1CSProof::<G::RefG>::from_bytes(proof) else { return RefVerify { accepted: false, verdict: "FormatError".into(), log: vec![], main_id } };
    let ctx = Rc::new(RCtx::<G::RefG> { is_prover: false, model: RefCell::new(Model::new()), commitments: RefCell::new(coms), next_commit: Cell::new(0) });
    if record {
        instr::start();
    }
    let r = guarded(|| {
        let mut v = Verifier::<G::RefG, &mut Transcript>::new(&mut t);
        run_phase1(&mut v, &prog.ops, &ctx);
        v.verify(&pf, &pc, &gens)
    });
    let log = if record { instr::take() } else { vec![] };
    match r {
        Err(p) => RefVerify { accepted: false, verdict: format!("PANIC({})", p), log, main_id },
        Ok(Ok(())) => RefVerify { accepted: true, verdict: "Ok".into(), log, main_id },
        Ok(Err(e)) => RefVerify { accepted: false, verdict: format!("Err({:?})", e), log, main_id },
    }
}
