//! Clean-room reference verifiers, written from the protocol description:
//!  * `ref_r1cs`: the unbatched R1CS verification relations (a) mandatory points are not the
//!    identity and the shape fits, (b) the committed evaluation relation, (c) the
//!    inner-product opening with the generator vectors folded explicitly round by round;
//!  * `ref_ipp`: the inner-product argument on its own.
//! They share only curve arithmetic and the generators with the code under test.
//! Challenges are supplied by the caller (taken by position from the real run's log).
use crate::mirror::ProofMirror;
use crate::model::Model;
use ark_ec::{AffineRepr, CurveGroup};
use ark_ff::{Field, One, PrimeField, Zero};

type Fr<G> = <G as AffineRepr>::ScalarField;

#[derive(Clone, Debug, PartialEq, Eq)]
pub struct RefVerdict {
    /// (a) mandatory points non-identity and |L| = |R| = log2(padded)
    pub a: bool,
    /// (b) t_x·B + t̃·B̃ = x²(wc+δ)·B + x²·Σ wV_j·V_j + Σ x^i·T_i      (None: not evaluated)
    pub b: Option<bool>,
    /// (c) inner-product opening with explicit folding                       (None: not evaluated)
    pub c: Option<bool>,
}

impl RefVerdict {
    pub fn accept(&self) -> Option<bool> {
        if !self.a {
            return Some(false);
        }
        match (self.b, self.c) {
            (Some(b), Some(c)) => Some(b && c),
            _ => None,
        }
    }
    pub fn class(&self) -> &'static str {
        match (self.a, self.b, self.c) {
            (false, _, _) => "reject:a",
            (true, Some(true), Some(true)) => "accept",
            (true, Some(false), Some(true)) => "reject:b-only",
            (true, Some(true), Some(false)) => "reject:c-only",
            (true, Some(false), Some(false)) => "reject:b+c",
            _ => "undetermined",
        }
    }
}

pub struct Challenges<F> {
    pub y: F,
    pub z: F,
    pub u: F,
    pub x: F,
    pub w: F,
    pub rounds: Vec<F>,
}

fn mul<G: AffineRepr>(p: &G, s: &Fr<G>) -> G::Group {
    p.mul_bigint(s.into_bigint())
}

/// (a) on its own: needs no challenges
pub fn relation_a<G: AffineRepr>(m: &ProofMirror<G>, padded: usize) -> bool {
    let k = padded.trailing_zeros() as usize;
    let mandatory = [m.A_I1, m.A_O1, m.S1, m.T_1, m.T_3, m.T_4, m.T_5, m.T_6];
    mandatory.iter().all(|p| !p.is_zero())
        && m.ipp.L.len() == k
        && m.ipp.R.len() == k
        && m.ipp.L.iter().chain(m.ipp.R.iter()).all(|p| !p.is_zero())
}

#[allow(non_snake_case)]
pub fn ref_r1cs<G: AffineRepr>(
    model: &Model<Fr<G>>,
    commitments: &[G],
    m: &ProofMirror<G>,
    B: &G,
    B_blinding: &G,
    gens_G: &[G],
    gens_H: &[G],
    ch: Option<&Challenges<Fr<G>>>,
) -> RefVerdict {
    let n = model.gates();
    let n1 = model.n1_final();
    let padded = n.next_power_of_two().max(1);
    let a_ok = relation_a(m, padded);
    let Some(ch) = ch else { return RefVerdict { a: a_ok, b: None, c: None } };
    let k = padded.trailing_zeros() as usize;
    let shape_ok = m.ipp.L.len() == k && m.ipp.R.len() == k;
    // (b) and (c) are evaluated whenever the shape allows it, even if (a) already fails
    if !shape_ok || ch.rounds.len() != m.ipp.L.len() || gens_G.len() < padded || gens_H.len() < padded || commitments.len() != model.v.len() {
        return RefVerdict { a: a_ok, b: None, c: None };
    }
    let (y, z, u, x, w) = (ch.y, ch.z, ch.u, ch.x, ch.w);
    let (wl, wr, wo, wv, wc) = model.flatten(z);
    let y_inv = y.inverse().unwrap_or(Fr::<G>::zero());
    let mut y_pow = vec![Fr::<G>::one(); padded];
    let mut y_inv_pow = vec![Fr::<G>::one(); padded];
    for i in 1..padded {
        y_pow[i] = y_pow[i - 1] * y;
        y_inv_pow[i] = y_inv_pow[i - 1] * y_inv;
    }
    let delta: Fr<G> = (0..n).map(|i| y_inv_pow[i] * wr[i] * wl[i]).sum();
    let xx = x * x;
    // (b)
    let lhs_b = mul(B, &m.t_x) + mul(B_blinding, &m.t_x_blinding);
    let mut rhs_b = mul(B, &(xx * (wc + delta)));
    for (j, v) in commitments.iter().enumerate() {
        rhs_b += mul(v, &(xx * wv[j]));
    }
    let mut xi = x;
    for (i, t) in [(1, m.T_1), (3, m.T_3), (4, m.T_4), (5, m.T_5), (6, m.T_6)] {
        let _ = xi;
        xi = x.pow([i as u64]);
        rhs_b += mul(&t, &xi);
    }
    let b_ok = lhs_b == rhs_b;
    // (c)
    let g_fac = |i: usize| if i < n1 { Fr::<G>::one() } else { u };
    let mut gp: Vec<G::Group> = (0..padded).map(|i| mul(&gens_G[i], &g_fac(i))).collect();
    let mut hp: Vec<G::Group> = (0..padded).map(|i| mul(&gens_H[i], &(y_inv_pow[i] * g_fac(i)))).collect();
    let a_i = m.A_I1.into_group() + mul(&m.A_I2, &u);
    let a_o = m.A_O1.into_group() + mul(&m.A_O2, &u);
    let s = m.S1.into_group() + mul(&m.S2, &u);
    let q = mul(B, &w);
    let mut p = a_i * x + a_o * xx + s * (xx * x) - mul(B_blinding, &m.e_blinding) + q * m.t_x;
    for i in 0..padded {
        let (wli, wri, woi) = if i < n { (wl[i], wr[i], wo[i]) } else { (Fr::<G>::zero(), Fr::<G>::zero(), Fr::<G>::zero()) };
        p += gp[i] * (x * y_inv_pow[i] * wri);
        p += hp[i] * (x * wli + woi - y_pow[i]);
    }
    let mut len = padded;
    for (j, uj) in ch.rounds.iter().enumerate() {
        let uj_inv = uj.inverse().unwrap_or(Fr::<G>::zero());
        len /= 2;
        for i in 0..len {
            gp[i] = gp[i] * uj_inv + gp[len + i] * uj;
            hp[i] = hp[i] * uj + hp[len + i] * uj_inv;
        }
        p += mul(&m.ipp.L[j], &(*uj * uj)) + mul(&m.ipp.R[j], &(uj_inv * uj_inv));
    }
    let rhs_c = gp[0] * m.ipp.a + hp[0] * m.ipp.b + q * (m.ipp.a * m.ipp.b);
    let c_ok = p == rhs_c;
    RefVerdict { a: a_ok, b: Some(b_ok), c: Some(c_ok) }
}

/// Reference inner-product verifier: accept iff every L_j, R_j is non-identity, the number of
/// rounds is log2(n), and after folding G' = g∘G, H' = h∘H with the round challenges
/// P + Σ u_j² L_j + Σ u_j^-2 R_j = a·G'_0 + b·H'_0 + ab·Q.
#[allow(non_snake_case)]
pub fn ref_ipp<G: AffineRepr>(
    n: usize,
    g_factors: &[Fr<G>],
    h_factors: &[Fr<G>],
    P: &G,
    Q: &G,
    gens_G: &[G],
    gens_H: &[G],
    L: &[G],
    R: &[G],
    a: Fr<G>,
    b: Fr<G>,
    rounds: &[Fr<G>],
) -> bool {
    if !n.is_power_of_two() || L.len() != R.len() || (1usize << L.len().min(40)) != n || rounds.len() != L.len() {
        return false;
    }
    if L.iter().chain(R.iter()).any(|p| p.is_zero()) {
        return false;
    }
    let mut gp: Vec<G::Group> = (0..n).map(|i| mul(&gens_G[i], &g_factors[i])).collect();
    let mut hp: Vec<G::Group> = (0..n).map(|i| mul(&gens_H[i], &h_factors[i])).collect();
    let mut p = P.into_group();
    let mut len = n;
    for (j, uj) in rounds.iter().enumerate() {
        let uj_inv = uj.inverse().unwrap_or(Fr::<G>::zero());
        len /= 2;
        for i in 0..len {
            gp[i] = gp[i] * uj_inv + gp[len + i] * uj;
            hp[i] = hp[i] * uj + hp[len + i] * uj_inv;
        }
        p += mul(&L[j], &(*uj * uj)) + mul(&R[j], &(uj_inv * uj_inv));
    }
    p == gp[0] * a + hp[0] * b + mul(Q, &(a * b))
}

pub fn affine<G: AffineRepr>(p: G::Group) -> G {
    p.into_affine()
}
