//! Total, monotone decoder from a byte string (the *choice sequence*) to structured
//! values. Exhausted input reads as zeros, so every byte string decodes to a valid case,
//! and smaller bytes mean simpler choices (ranges are mapped by scaling, never `%`), so
//! that proptest's byte-level shrinking simplifies the decoded case.

pub struct Choices<'a> {
    data: &'a [u8],
    pos: usize,
}

impl<'a> Choices<'a> {
    pub fn new(data: &'a [u8]) -> Self {
        Choices { data, pos: 0 }
    }
    pub fn consumed(&self) -> usize {
        self.pos
    }
    /// a second reader at the same position of the same bytes
    pub fn fork(&self) -> Choices<'a> {
        Choices { data: self.data, pos: self.pos }
    }
    pub fn exhausted(&self) -> bool {
        self.pos >= self.data.len()
    }
    pub fn byte(&mut self) -> u8 {
        let b = self.data.get(self.pos).copied().unwrap_or(0);
        self.pos += 1;
        b
    }
    /// value in 0..n (n ≥ 1), monotone in the underlying byte(s)
    pub fn below(&mut self, n: usize) -> usize {
        if n <= 1 {
            // still consume nothing: a forced choice costs no entropy
            return 0;
        }
        if n <= 256 {
            (self.byte() as usize * n) >> 8
        } else {
            let v = ((self.byte() as usize) << 8) | self.byte() as usize;
            (v * n.min(65536)) >> 16
        }
    }
    /// value in lo..=hi
    pub fn range(&mut self, lo: usize, hi: usize) -> usize {
        lo + self.below(hi - lo + 1)
    }
    /// true with probability num/256 (false on exhausted input)
    pub fn chance(&mut self, num: u32) -> bool {
        let b = self.byte() as u32;
        // high bytes trigger, so that zero bytes (shrunk) mean "no"
        b >= 256 - num.min(256)
    }
    pub fn u64(&mut self) -> u64 {
        let mut v = 0u64;
        for i in 0..8 {
            v |= (self.byte() as u64) << (8 * i);
        }
        v
    }
    pub fn u16(&mut self) -> u16 {
        (self.byte() as u16) | ((self.byte() as u16) << 8)
    }
    pub fn bytes(&mut self, n: usize) -> Vec<u8> {
        (0..n).map(|_| self.byte()).collect()
    }
    /// weighted pick: returns index i with probability w[i]/sum(w); index 0 on zeros
    pub fn weighted(&mut self, w: &[u32]) -> usize {
        let total: u32 = w.iter().sum();
        if total == 0 {
            return 0;
        }
        let r = (self.byte() as u32 * total) >> 8;
        let mut acc = 0;
        for (i, x) in w.iter().enumerate() {
            acc += x;
            if r < acc {
                return i;
            }
        }
        w.len() - 1
    }
}
