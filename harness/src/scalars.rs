//! Scalar classes over the full field. A `ScalarSpec` is curve-independent data; it is
//! turned into a field element of the curve at hand by `to_f`.
use crate::choices::Choices;
use ark_ff::PrimeField;
use rand_chacha::ChaChaRng;
use rand_core::SeedableRng;

#[derive(Clone, Debug, PartialEq, Eq, Hash)]
pub enum ScalarSpec {
    Zero,
    One,
    MinusOne,
    Small(u64),
    /// 2^k
    Pow2(u32),
    /// p - k
    NegSmall(u64),
    /// (p-1)/2
    Half,
    /// k^{-1}
    InvSmall(u64),
    /// 2^64 - 1
    U64Max,
    /// uniformly random element expanded from a seed
    Rand(u64),
    /// 256-bit integer (reduced mod p) whose four 64-bit limbs are each 0, 1, all-ones or
    /// pseudo-random: bits 0-7 select the limb kinds, the rest seeds the random limbs
    Limbs(u16),
}

impl ScalarSpec {
    pub fn to_f<F: PrimeField>(&self) -> F {
        match self {
            ScalarSpec::Zero => F::zero(),
            ScalarSpec::One => F::one(),
            ScalarSpec::MinusOne => -F::one(),
            ScalarSpec::Small(k) => F::from(*k),
            ScalarSpec::Pow2(k) => F::from(2u64).pow([*k as u64]),
            ScalarSpec::NegSmall(k) => -F::from(*k),
            ScalarSpec::Half => (-F::one()) * F::from(2u64).inverse().unwrap(),
            ScalarSpec::InvSmall(k) => F::from((*k).max(1)).inverse().unwrap(),
            ScalarSpec::U64Max => F::from(u64::MAX),
            ScalarSpec::Limbs(p) => {
                let mut bytes = [0u8; 32];
                for l in 0..4 {
                    let kind = (p >> (2 * l)) & 3;
                    let v: u64 = match kind {
                        0 => 0,
                        1 => 1,
                        2 => u64::MAX,
                        _ => (*p as u64 + 1).wrapping_mul(0x9e37_79b9_7f4a_7c15).rotate_left(17 * (l as u32 + 1)) | 1,
                    };
                    bytes[8 * l..8 * l + 8].copy_from_slice(&v.to_le_bytes());
                }
                F::from_le_bytes_mod_order(&bytes)
            }
            ScalarSpec::Rand(seed) => {
                let mut s = [0u8; 32];
                s[..8].copy_from_slice(&seed.to_le_bytes());
                s[8] = 0x5c;
                let mut r = ChaChaRng::from_seed(s);
                F::rand(&mut r)
            }
        }
    }
    pub fn is_zero_spec(&self) -> bool {
        matches!(self, ScalarSpec::Zero | ScalarSpec::Small(0) | ScalarSpec::NegSmall(0)) || matches!(self, ScalarSpec::Limbs(p) if p & 0xff == 0)
    }
    /// any class (zero included)
    pub fn gen(ch: &mut Choices) -> ScalarSpec {
        match ch.weighted(&[6, 8, 5, 18, 6, 8, 3, 4, 3, 33, 6]) {
            0 => ScalarSpec::Zero,
            1 => ScalarSpec::One,
            2 => ScalarSpec::MinusOne,
            3 => ScalarSpec::Small(ch.byte() as u64),
            4 => ScalarSpec::Pow2(ch.range(1, 250) as u32),
            5 => ScalarSpec::NegSmall(1 + ch.byte() as u64),
            6 => ScalarSpec::Half,
            7 => ScalarSpec::InvSmall(2 + ch.byte() as u64),
            8 => ScalarSpec::U64Max,
            9 => ScalarSpec::Rand(ch.u16() as u64),
            _ => ScalarSpec::Limbs(ch.u16()),
        }
    }
    /// a class that is never the zero element
    pub fn gen_nonzero(ch: &mut Choices) -> ScalarSpec {
        match ch.weighted(&[14, 8, 12, 6, 8, 3, 4, 3, 36, 6]) {
            0 => ScalarSpec::One,
            1 => ScalarSpec::MinusOne,
            2 => ScalarSpec::Small(1 + (ch.byte() as u64 % 255)),
            3 => ScalarSpec::Pow2(ch.range(1, 250) as u32),
            4 => ScalarSpec::NegSmall(1 + ch.byte() as u64),
            5 => ScalarSpec::Half,
            6 => ScalarSpec::InvSmall(2 + ch.byte() as u64),
            7 => ScalarSpec::U64Max,
            8 => ScalarSpec::Rand(ch.u16() as u64),
            _ => ScalarSpec::Limbs(ch.u16() | 0x00c0), // top limb pseudo-random: never zero
        }
    }
    pub fn short(&self) -> String {
        match self {
            ScalarSpec::Zero => "0".into(),
            ScalarSpec::One => "1".into(),
            ScalarSpec::MinusOne => "-1".into(),
            ScalarSpec::Small(k) => format!("{}", k),
            ScalarSpec::Pow2(k) => format!("2^{}", k),
            ScalarSpec::NegSmall(k) => format!("-{}", k),
            ScalarSpec::Half => "(p-1)/2".into(),
            ScalarSpec::InvSmall(k) => format!("1/{}", k),
            ScalarSpec::U64Max => "2^64-1".into(),
            ScalarSpec::Rand(s) => format!("rnd#{}", s),
            ScalarSpec::Limbs(p) => format!("limbs#{:04x}", p),
        }
    }
}

pub fn f_hex<F: PrimeField>(f: &F) -> String {
    use ark_serialize::CanonicalSerialize;
    let mut b = Vec::new();
    f.serialize_compressed(&mut b).unwrap();
    b.reverse();
    hex::encode(b)
}
