//! Counting global allocator: live and peak heap bytes per thread, so that a check can
//! bound the memory a single call allocates.
use std::alloc::{GlobalAlloc, Layout, System};
use std::cell::Cell;

pub struct Counting;

thread_local! {
    static LIVE: Cell<isize> = const { Cell::new(0) };
    static PEAK: Cell<isize> = const { Cell::new(0) };
}

unsafe impl GlobalAlloc for Counting {
    unsafe fn alloc(&self, l: Layout) -> *mut u8 {
        let p = System.alloc(l);
        if !p.is_null() {
            add(l.size() as isize);
        }
        p
    }
    unsafe fn dealloc(&self, p: *mut u8, l: Layout) {
        System.dealloc(p, l);
        add(-(l.size() as isize));
    }
    unsafe fn realloc(&self, p: *mut u8, l: Layout, new: usize) -> *mut u8 {
        let q = System.realloc(p, l, new);
        if !q.is_null() {
            add(new as isize - l.size() as isize);
        }
        q
    }
}

#[inline]
fn add(d: isize) {
    // try_with: thread teardown may have destroyed the cells
    let _ = LIVE.try_with(|c| {
        let v = c.get() + d;
        c.set(v);
        let _ = PEAK.try_with(|p| {
            if v > p.get() {
                p.set(v);
            }
        });
    });
}

/// Runs `f` and returns (result, peak additional live heap bytes on this thread during `f`).
pub fn measure<T>(f: impl FnOnce() -> T) -> (T, usize) {
    let base = LIVE.with(|c| c.get());
    PEAK.with(|p| p.set(base));
    let r = f();
    let peak = PEAK.with(|p| p.get());
    (r, (peak - base).max(0) as usize)
}
