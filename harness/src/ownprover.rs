//! A clean-room prover (own Fiat–Shamir transcript, own polynomial arithmetic, own
//! inner-product argument), able to deviate from the protocol in exactly one place.
//! Honest output cross-checks the real verifier's completeness with an independent prover;
//! each deviation yields a transcript-consistent proof that violates exactly one term of the
//! verification relations — the inputs on which a dropped or mis-weighted term of the real
//! verifier's combined check becomes visible.
#![allow(non_snake_case)]
use crate::curves::CurveTag;
use crate::drive::{bp_gens, prog_pc};
use crate::mirror::{IppMirror, ProofMirror};
use crate::model::Model;
use crate::program::{Op, Program, CLABELS, TLABELS, ULABELS};
use crate::schedule::{enc_point, enc_scalar, model_step, static_label};
use crate::tlog::challenge_to_f;
use ark_ec::{AffineRepr, CurveGroup};
use ark_ff::{Field, One, PrimeField, Zero};
use ark_std::UniformRand;
use merlin::Transcript;
use rand_chacha::ChaChaRng;
use rand_core::SeedableRng;

type Fr<G> = <G as AffineRepr>::ScalarField;

#[derive(Clone, Debug, PartialEq)]
pub enum Cheat<F> {
    None,
    /// T_i commits to t_i + d and t_x is evaluated from the shifted coefficient:
    /// (b) holds, (c) fails only through t_x != <l, r>     (i ∈ {1,3,4,5,6})
    TShift(usize, F),
    /// e_blinding + d: (c) fails only in its blinding-base term
    EBlind(F),
    /// t_x_blinding + d: (b) fails only in its blinding-base term
    TBlind(F),
    /// the inner-product argument is run on l + d·e_i: (c) fails only in one G' term
    LVec(usize, F),
    /// the padding entries of r are 0 instead of -y^i: (c) fails only in the padded H' terms
    NoPadding,
    /// S enters the opening with weight x^3 + d instead of x^3 (the prover uses a different
    /// masking vector than it committed to)
    MaskMismatch(F),
    /// a circuit without second-phase gates whose proof nevertheless carries non-identity
    /// second-phase points (bound into the transcript, everything else honest)
    JunkPhase2(u64),
}

struct Fs {
    t: Transcript,
}
impl Fs {
    fn app(&mut self, label: &[u8], bytes: &[u8]) {
        self.t.append_message(static_label(label), bytes);
    }
    fn pt<G: AffineRepr>(&mut self, label: &[u8], p: &G) {
        self.app(label, &enc_point(p));
    }
    fn sc<F: PrimeField>(&mut self, label: &[u8], s: &F) {
        self.app(label, &enc_scalar(s));
    }
    fn chal<F: PrimeField>(&mut self, label: &[u8]) -> F {
        let mut b = [0u8; 32];
        self.t.challenge_bytes(static_label(label), &mut b);
        challenge_to_f::<F>(&b).unwrap()
    }
}

fn mul<G: AffineRepr>(p: &G, s: &Fr<G>) -> G::Group {
    p.mul_bigint(s.into_bigint())
}
fn ip<F: PrimeField>(a: &[F], b: &[F]) -> F {
    a.iter().zip(b.iter()).map(|(x, y)| *x * y).sum()
}

pub struct OwnProof<G: AffineRepr> {
    pub mirror: ProofMirror<G>,
    pub commitments: Vec<G>,
    pub model: Model<Fr<G>>,
}

pub fn own_prove<G: CurveTag>(prog: &Program, seed: u64, cheat: &Cheat<Fr<G>>) -> OwnProof<G> {
    let pc = prog_pc::<G>(prog);
    let (B, Bb) = (pc.B, pc.B_blinding);
    let mut rng = {
        let mut s = [0u8; 32];
        s[..8].copy_from_slice(&seed.to_le_bytes());
        s[31] = 0x77;
        ChaChaRng::from_seed(s)
    };
    let mut rnd = || Fr::<G>::rand(&mut rng);
    let mut fs = Fs { t: Transcript::new(TLABELS[prog.tlabel as usize]) };
    for (l, b) in &prog.pre {
        fs.app(ULABELS[*l as usize], b);
    }
    fs.app(b"dom-sep", b"r1cs v1");
    // ---- first phase
    let mut m: Model<Fr<G>> = Model::new();
    let mut next = 0usize;
    let mut commitments: Vec<G> = vec![];
    let mut bodies: Vec<&Vec<Op>> = vec![];
    for op in &prog.ops {
        match op {
            Op::Commit { v, blind } => {
                let (vf, bf): (Fr<G>, Fr<G>) = (v.to_f(), blind.to_f());
                m.commit(vf, bf);
                let c = (mul(&B, &vf) + mul(&Bb, &bf)).into_affine();
                fs.pt(b"V", &c);
                commitments.push(c);
            }
            Op::TData { label, bytes } => fs.app(ULABELS[*label as usize], bytes),
            Op::Closure(b) => bodies.push(b),
            other => model_step(&mut m, other, &[], &mut next),
        }
    }
    fs.app(b"m", &(commitments.len() as u64).to_le_bytes());
    let n1 = m.gates();
    let gens = bp_gens::<G>(256, 1);
    let gall: Vec<G> = gens.G(256, 1).cloned().collect();
    let hall: Vec<G> = gens.H(256, 1).cloned().collect();
    let commit_vec = |range: std::ops::Range<usize>, l: &[Fr<G>], r: Option<&[Fr<G>]>, blind: Fr<G>| -> G {
        let mut acc = mul(&Bb, &blind);
        for i in range {
            acc += mul(&gall[i], &l[i]);
            if let Some(r) = r {
                acc += mul(&hall[i], &r[i]);
            }
        }
        acc.into_affine()
    };
    let (i1, o1, s1) = (rnd(), rnd(), rnd());
    let mut s_l: Vec<Fr<G>> = (0..n1).map(|_| rnd()).collect();
    let mut s_r: Vec<Fr<G>> = (0..n1).map(|_| rnd()).collect();
    let A_I1 = commit_vec(0..n1, &m.a_l, Some(&m.a_r), i1);
    let A_O1 = commit_vec(0..n1, &m.a_o, None, o1);
    let S1 = commit_vec(0..n1, &s_l, Some(&s_r), s1);
    fs.pt(b"A_I1", &A_I1);
    fs.pt(b"A_O1", &A_O1);
    fs.pt(b"S1", &S1);
    // ---- second phase
    m.enter_phase2();
    if bodies.is_empty() {
        fs.app(b"dom-sep", b"r1cs-1phase");
    } else {
        fs.app(b"dom-sep", b"r1cs-2phase");
        for b in bodies {
            for op in b {
                match op {
                    Op::Challenge { label } => {
                        let c: Fr<G> = fs.chal(CLABELS[*label as usize]);
                        m.regs.push(c);
                    }
                    Op::TData { label, bytes } => fs.app(ULABELS[*label as usize], bytes),
                    other => model_step(&mut m, other, &[], &mut next),
                }
            }
        }
    }
    let n = m.gates();
    let n2 = n - n1;
    let padded = n.next_power_of_two().max(1);
    // JunkPhase2(sd): sd % 7 + 1 selects which of the three second-phase slots are filled,
    // (sd / 7) % 2 how: 0 = unrelated points (the relations fail), 1 = multiples of the
    // blinding base that are accounted for in e_blinding (an unusual but *valid* proof)
    let junk: Option<(u64, bool, u64)> = match cheat {
        Cheat::JunkPhase2(sd) if n2 == 0 => Some((sd % 7 + 1, (sd / 7) % 2 == 1, *sd)),
        _ => None,
    };
    let (i2, o2, s2) = if n2 > 0 {
        (rnd(), rnd(), rnd())
    } else if let Some((mask, true, sd)) = junk {
        let b = |k: u64| if mask >> k & 1 == 1 { crate::scalars::ScalarSpec::Rand(sd * 3 + k + 1000).to_f::<Fr<G>>() } else { Fr::<G>::zero() };
        (b(0), b(1), b(2))
    } else {
        (Fr::<G>::zero(), Fr::<G>::zero(), Fr::<G>::zero())
    };
    for _ in 0..n2 {
        s_l.push(rnd());
    }
    for _ in 0..n2 {
        s_r.push(rnd());
    }
    let (A_I2, A_O2, S2) = if n2 > 0 {
        (commit_vec(n1..n, &m.a_l, Some(&m.a_r), i2), commit_vec(n1..n, &m.a_o, None, o2), commit_vec(n1..n, &s_l, Some(&s_r), s2))
    } else if let Some((mask, balanced, sd)) = junk {
        if balanced {
            (mul(&Bb, &i2).into_affine(), mul(&Bb, &o2).into_affine(), mul(&Bb, &s2).into_affine())
        } else {
            let jp = |k: u64| -> G {
                if mask >> k & 1 == 1 {
                    mul(&G::generator(), &crate::scalars::ScalarSpec::Rand(sd * 3 + k).to_f::<Fr<G>>()).into_affine()
                } else {
                    G::zero()
                }
            };
            (jp(0), jp(1), jp(2))
        }
    } else {
        (G::zero(), G::zero(), G::zero())
    };
    fs.pt(b"A_I2", &A_I2);
    fs.pt(b"A_O2", &A_O2);
    fs.pt(b"S2", &S2);
    let y: Fr<G> = fs.chal(b"y");
    let z: Fr<G> = fs.chal(b"z");
    let (wl, wr, wo, wv, _wc) = m.flatten(z);
    let y_inv = y.inverse().unwrap();
    let mut yp = vec![Fr::<G>::one(); padded];
    let mut yip = vec![Fr::<G>::one(); padded];
    for i in 1..padded {
        yp[i] = yp[i - 1] * y;
        yip[i] = yip[i - 1] * y_inv;
    }
    // l(X) = l1 X + l2 X^2 + l3 X^3 ;  r(X) = r0 + r1 X + r3 X^3
    let l1: Vec<Fr<G>> = (0..n).map(|i| m.a_l[i] + yip[i] * wr[i]).collect();
    let l2: Vec<Fr<G>> = m.a_o.clone();
    let l3: Vec<Fr<G>> = s_l.clone();
    let r0: Vec<Fr<G>> = (0..n).map(|i| wo[i] - yp[i]).collect();
    let r1: Vec<Fr<G>> = (0..n).map(|i| yp[i] * m.a_r[i] + wl[i]).collect();
    let r3: Vec<Fr<G>> = (0..n).map(|i| yp[i] * s_r[i]).collect();
    let mut t = [Fr::<G>::zero(); 7];
    t[1] = ip(&l1, &r0);
    t[2] = ip(&l1, &r1) + ip(&l2, &r0);
    t[3] = ip(&l2, &r1) + ip(&l3, &r0);
    t[4] = ip(&l1, &r3) + ip(&l3, &r1);
    t[5] = ip(&l2, &r3);
    t[6] = ip(&l3, &r3);
    if let Cheat::TShift(i, d) = cheat {
        t[*i] += *d;
    }
    let tau: Vec<Fr<G>> = (0..7).map(|_| rnd()).collect();
    let T = |i: usize| (mul(&B, &t[i]) + mul(&Bb, &tau[i])).into_affine();
    let (T_1, T_3, T_4, T_5, T_6) = (T(1), T(3), T(4), T(5), T(6));
    fs.pt(b"T_1", &T_1);
    fs.pt(b"T_3", &T_3);
    fs.pt(b"T_4", &T_4);
    fs.pt(b"T_5", &T_5);
    fs.pt(b"T_6", &T_6);
    let u: Fr<G> = fs.chal(b"u");
    let x: Fr<G> = fs.chal(b"x");
    let xs: Vec<Fr<G>> = (0..7).map(|i| x.pow([i as u64])).collect();
    let t_x: Fr<G> = (1..7).map(|i| t[i] * xs[i]).sum();
    let t2_blind: Fr<G> = wv.iter().zip(m.v_blind.iter()).map(|(a, b)| *a * b).sum();
    let mut t_x_blinding: Fr<G> = [1usize, 3, 4, 5, 6].iter().map(|i| tau[*i] * xs[*i]).sum::<Fr<G>>() + xs[2] * t2_blind;
    let (ib, ob, sb) = (i1 + u * i2, o1 + u * o2, s1 + u * s2);
    let mut e_blinding = x * (ib + x * (ob + x * sb));
    if let Cheat::EBlind(d) = cheat {
        e_blinding += *d;
    }
    if let Cheat::TBlind(d) = cheat {
        t_x_blinding += *d;
    }
    let x3 = match cheat {
        Cheat::MaskMismatch(d) => xs[3] + *d,
        _ => xs[3],
    };
    let mut lv: Vec<Fr<G>> = (0..n).map(|i| l1[i] * x + l2[i] * xs[2] + l3[i] * x3).collect();
    let mut rv: Vec<Fr<G>> = (0..n).map(|i| r0[i] + r1[i] * x + r3[i] * x3).collect();
    lv.resize(padded, Fr::<G>::zero());
    for i in n..padded {
        rv.push(if *cheat == Cheat::NoPadding { Fr::<G>::zero() } else { -yp[i] });
    }
    if let Cheat::LVec(i, d) = cheat {
        let i = *i % padded;
        lv[i] += *d;
    }
    fs.sc(b"t_x", &t_x);
    fs.sc(b"t_x_blinding", &t_x_blinding);
    fs.sc(b"e_blinding", &e_blinding);
    let w: Fr<G> = fs.chal(b"w");
    let Q = mul(&B, &w);
    // ---- own inner-product argument over G' = g∘G, H' = h∘H
    fs.app(b"dom-sep", b"ipp v1");
    fs.app(b"n", &(padded as u64).to_le_bytes());
    let gfac = |i: usize| if i < n1 { Fr::<G>::one() } else { u };
    let mut gp: Vec<G::Group> = (0..padded).map(|i| mul(&gall[i], &gfac(i))).collect();
    let mut hp: Vec<G::Group> = (0..padded).map(|i| mul(&hall[i], &(yip[i] * gfac(i)))).collect();
    let (mut a, mut b) = (lv, rv);
    let (mut Ls, mut Rs) = (vec![], vec![]);
    let mut len = padded;
    while len > 1 {
        len /= 2;
        let (a_lo, a_hi) = a.split_at(len);
        let (b_lo, b_hi) = b.split_at(len);
        let mut L = Q * ip(a_lo, b_hi);
        let mut R = Q * ip(a_hi, b_lo);
        for i in 0..len {
            L += gp[len + i] * a_lo[i] + hp[i] * b_hi[i];
            R += gp[i] * a_hi[i] + hp[len + i] * b_lo[i];
        }
        let (L, R): (G, G) = (L.into_affine(), R.into_affine());
        fs.pt(b"L", &L);
        fs.pt(b"R", &R);
        let uj: Fr<G> = fs.chal(b"u");
        let uji = uj.inverse().unwrap();
        let a2: Vec<Fr<G>> = (0..len).map(|i| a_lo[i] * uj + a_hi[i] * uji).collect();
        let b2: Vec<Fr<G>> = (0..len).map(|i| b_lo[i] * uji + b_hi[i] * uj).collect();
        for i in 0..len {
            gp[i] = gp[i] * uji + gp[len + i] * uj;
            hp[i] = hp[i] * uj + hp[len + i] * uji;
        }
        a = a2;
        b = b2;
        Ls.push(L);
        Rs.push(R);
    }
    let mirror = ProofMirror { A_I1, A_O1, S1, A_I2, A_O2, S2, T_1, T_3, T_4, T_5, T_6, t_x, t_x_blinding, e_blinding, ipp: IppMirror { L: Ls, R: Rs, a: a[0], b: b[0] } };
    OwnProof { mirror, commitments, model: m }
}
