//! Runs a program against the real `Prover` / `Verifier` (and keeps the model in lock step).
use crate::curves::CurveTag;
use crate::model::Model;
use crate::program::{Lc, Op, Program, Var, CLABELS, TLABELS, ULABELS};
use ark_bulletproofs::r1cs::{
    batch_verify, ConstraintSystem, LinearCombination, Prover, R1CSError, R1CSProof,
    RandomizableConstraintSystem, RandomizedConstraintSystem, Variable, Verifier, VerifTamper,
};
use ark_bulletproofs::{BulletproofGens, PedersenGens};
use ark_ec::AffineRepr;
use ark_ff::{One, Zero};
use merlin::instr::{self, Event};
use merlin::Transcript;
use rand_chacha::ChaChaRng;
use rand_core::{CryptoRng, RngCore, SeedableRng};
use std::any::Any;
use std::borrow::BorrowMut;
use std::cell::{Cell, RefCell};
use std::collections::HashMap;
use std::panic::{catch_unwind, AssertUnwindSafe};
use std::rc::Rc;

type Fr<G> = <G as AffineRepr>::ScalarField;

// ---------------------------------------------------------------------------------------
// panic capture

thread_local! {
    static QUIET: Cell<bool> = Cell::new(false);
    static LAST_PANIC: RefCell<Option<String>> = RefCell::new(None);
}

pub fn install_panic_hook() {
    let default = std::panic::take_hook();
    std::panic::set_hook(Box::new(move |info| {
        let loc = info.location().map(|l| format!("{}:{}", l.file(), l.line())).unwrap_or_default();
        let msg = if let Some(s) = info.payload().downcast_ref::<&str>() {
            s.to_string()
        } else if let Some(s) = info.payload().downcast_ref::<String>() {
            s.clone()
        } else {
            "<non-string panic>".to_string()
        };
        LAST_PANIC.with(|p| *p.borrow_mut() = Some(format!("{} @ {}", msg, loc)));
        if !QUIET.with(|q| q.get()) {
            default(info);
        }
    }));
}

/// Run `f`, turning a panic into `Err(message @ location)`.
pub fn guarded<T>(f: impl FnOnce() -> T) -> Result<T, String> {
    let prev = QUIET.with(|q| q.replace(true));
    LAST_PANIC.with(|p| *p.borrow_mut() = None);
    let r = catch_unwind(AssertUnwindSafe(f));
    QUIET.with(|q| q.set(prev));
    match r {
        Ok(v) => Ok(v),
        Err(_) => {
            // a panic inside merlin recording / scripting must not leak state
            let _ = instr::take();
            let _ = instr::clear_script();
            Err(LAST_PANIC.with(|p| p.borrow_mut().take()).unwrap_or_else(|| "panic".into()))
        }
    }
}

// ---------------------------------------------------------------------------------------
// generator caches (read-only, per thread)

thread_local! {
    static GENS: RefCell<HashMap<(usize, usize, usize), Rc<dyn Any>>> = RefCell::new(HashMap::new());
}

pub fn bp_gens<G: CurveTag>(cap: usize, parties: usize) -> Rc<BulletproofGens<G>> {
    GENS.with(|g| {
        let mut g = g.borrow_mut();
        let key = (G::CURVE.index(), cap, parties);
        if let Some(x) = g.get(&key) {
            return x.clone().downcast::<BulletproofGens<G>>().unwrap();
        }
        if g.len() > 600 {
            g.clear();
        }
        let v: Rc<BulletproofGens<G>> = Rc::new(BulletproofGens::new(cap, parties));
        g.insert(key, v.clone() as Rc<dyn Any>);
        v
    })
}

/// generator objects obtained in different (equivalent) ways
pub fn bp_gens_mode<G: CurveTag>(cap: usize, parties: usize, mode: u8) -> Rc<BulletproofGens<G>> {
    use ark_serialize::{CanonicalDeserialize, CanonicalSerialize};
    if mode % 4 == 0 {
        return bp_gens::<G>(cap, parties);
    }
    GENS.with(|g| {
        let key = (G::CURVE.index() + 10 * (mode as usize % 4), cap, parties);
        if let Some(x) = g.borrow().get(&key) {
            return x.clone().downcast::<BulletproofGens<G>>().unwrap();
        }
        let v: BulletproofGens<G> = match mode % 4 {
            1 => {
                let mut x = BulletproofGens::new(cap / 2, parties);
                x.increase_capacity(cap);
                x
            }
            2 => {
                let x = BulletproofGens::<G>::new(cap, parties);
                let mut b = vec![];
                x.serialize_compressed(&mut b).unwrap();
                BulletproofGens::<G>::deserialize_compressed(&b[..]).expect("generators round-trip")
            }
            _ => {
                let mut x = BulletproofGens::new(0, parties);
                let mut c = 0;
                while c < cap {
                    c = (c + 1 + c / 2).min(cap);
                    x.increase_capacity(c);
                    x.increase_capacity(c / 2); // no-op
                }
                x
            }
        };
        let v = Rc::new(v);
        g.borrow_mut().insert(key, v.clone() as Rc<dyn Any>);
        v
    })
}

pub fn pc_gens<G: CurveTag>() -> PedersenGens<G> {
    thread_local! {
        static PC: RefCell<HashMap<usize, Rc<dyn Any>>> = RefCell::new(HashMap::new());
    }
    PC.with(|m| {
        let mut m = m.borrow_mut();
        let e = m
            .entry(G::CURVE.index())
            .or_insert_with(|| Rc::new(PedersenGens::<G>::default()) as Rc<dyn Any>);
        *e.clone().downcast::<PedersenGens<G>>().unwrap()
    })
}

/// the Pedersen bases a program's prover and verifier share
pub fn prog_pc<G: CurveTag>(prog: &Program) -> PedersenGens<G> {
    use ark_ec::CurveGroup;
    let d = pc_gens::<G>();
    let rp = |seed: u64| -> G {
        let s: Fr<G> = crate::scalars::ScalarSpec::Rand(seed ^ 0x5eed_ba5e).to_f();
        G::generator().mul_bigint(ark_ff::PrimeField::into_bigint(s)).into_affine()
    };
    match prog.pc % 4 {
        0 => d,
        1 => PedersenGens { B: rp(2 * prog.seed + 11), B_blinding: rp(2 * prog.seed + 12) },
        2 => PedersenGens { B: d.B_blinding, B_blinding: d.B },
        _ => PedersenGens { B: (d.B.into_group() + d.B.into_group()).into_affine(), B_blinding: d.B_blinding },
    }
}

// ---------------------------------------------------------------------------------------
// external RNG with a byte counter

pub struct CountingRng {
    pub inner: ChaChaRng,
    pub bytes: usize,
    /// a source that cannot deliver: `try_fill_bytes` errs, the infallible methods panic
    pub failing: bool,
    /// a degenerate source: every byte it delivers is this constant
    pub constant: Option<u8>,
}

impl CountingRng {
    pub fn new(seed: u64, domain: u8) -> Self {
        let mut s = [0u8; 32];
        s[..8].copy_from_slice(&seed.to_le_bytes());
        s[31] = domain;
        CountingRng { inner: ChaChaRng::from_seed(s), bytes: 0, failing: false, constant: None }
    }
}

impl RngCore for CountingRng {
    fn next_u32(&mut self) -> u32 {
        if self.failing {
            panic!("external RNG failure");
        }
        self.bytes += 4;
        if let Some(c) = self.constant {
            return u32::from_le_bytes([c; 4]);
        }
        self.inner.next_u32()
    }
    fn next_u64(&mut self) -> u64 {
        if self.failing {
            panic!("external RNG failure");
        }
        self.bytes += 8;
        if let Some(c) = self.constant {
            return u64::from_le_bytes([c; 8]);
        }
        self.inner.next_u64()
    }
    fn fill_bytes(&mut self, dest: &mut [u8]) {
        if self.failing {
            panic!("external RNG failure");
        }
        self.bytes += dest.len();
        if let Some(c) = self.constant {
            dest.fill(c);
            return;
        }
        self.inner.fill_bytes(dest)
    }
    fn try_fill_bytes(&mut self, dest: &mut [u8]) -> Result<(), rand_core::Error> {
        if self.failing {
            return Err(rand_core::Error::from(core::num::NonZeroU32::new(rand_core::Error::CUSTOM_START + 7).unwrap()));
        }
        self.fill_bytes(dest);
        Ok(())
    }
}
impl CryptoRng for CountingRng {}

// ---------------------------------------------------------------------------------------
// shared per-run context

#[derive(Clone, Debug, PartialEq, Eq)]
pub struct CallRec {
    pub what: &'static str,
    pub phase2: bool,
    /// handles returned by the real API (converted)
    pub ret: Vec<Var>,
    /// handles the model expects
    pub exp: Vec<Var>,
    pub len_real: usize,
    pub len_model: usize,
}

pub struct Ctx<G: AffineRepr> {
    pub is_prover: bool,
    pub model: RefCell<Model<Fr<G>>>,
    pub commitments: RefCell<Vec<G>>,
    pub next_commit: Cell<usize>,
    pub varmap: RefCell<HashMap<Var, Variable<Fr<G>>>>,
    pub calls: RefCell<Vec<CallRec>>,
    pub challenges: RefCell<Vec<Fr<G>>>,
    /// use the handles returned by the API (true) or construct `Variable`s directly
    pub use_returned: bool,
    /// (prover only) the k-th allocation call (allocate / allocate_multiplier, counted over
    /// both phases) is made without an assignment
    pub missing_at: Cell<Option<usize>>,
    pub alloc_calls: Cell<usize>,
    /// what that call returned: Ok(handles) is recorded as Ok, Err(e) as the error
    pub missing_result: RefCell<Option<Result<(), R1CSError>>>,
    /// multipliers_len() before and after that call
    pub missing_len: Cell<Option<(usize, usize)>>,
    /// after the failed call, make the same call with its assignment and carry on
    pub missing_retry: Cell<bool>,
    /// number of linear combinations built so far (selects the spelling)
    pub lc_count: Cell<usize>,
    /// how far the verifier's spelling is rotated against the prover's (0: same spelling)
    pub lc_shift: Cell<usize>,
}

impl<G: AffineRepr> Ctx<G> {
    pub fn new(is_prover: bool, commitments: Vec<G>) -> Rc<Self> {
        Rc::new(Ctx {
            is_prover,
            model: RefCell::new(Model::new()),
            commitments: RefCell::new(commitments),
            next_commit: Cell::new(0),
            varmap: RefCell::new(HashMap::new()),
            calls: RefCell::new(vec![]),
            challenges: RefCell::new(vec![]),
            use_returned: true,
            missing_at: Cell::new(None),
            alloc_calls: Cell::new(0),
            missing_result: RefCell::new(None),
            missing_len: Cell::new(None),
            missing_retry: Cell::new(false),
            lc_count: Cell::new(0),
            lc_shift: Cell::new(3),
        })
    }
    fn real(&self, v: &Var) -> Variable<Fr<G>> {
        if self.use_returned {
            if let Some(x) = self.varmap.borrow().get(v) {
                return *x;
            }
        }
        direct_var(v)
    }
    /// The same expression is spelled through a different part of the operator set each time
    /// (and differently by the two roles): collection from a term list, sums and differences
    /// starting from the empty combination or from a variable, negation, scaling, constants
    /// converted from field elements. All spellings denote Σ cᵢ·varᵢ.
    fn real_lc(&self, terms: &[(Var, Fr<G>)]) -> LinearCombination<Fr<G>> {
        let k = self.lc_count.get();
        self.lc_count.set(k + 1);
        let style = (k + if self.is_prover { 0 } else { self.lc_shift.get() }) % 9;
        // now and then a term over `Variable::Phantom` (a public variant that stands for no
        // wire: it carries no weight on either role) at the front, inside or at the end
        let phantom: Option<(usize, Fr<G>)> = if k % 9 == 4 { Some(((k / 9) % (terms.len() + 1), Fr::<G>::from(3 + k as u64))) } else { None };
        let with_phantom = |lc: LinearCombination<Fr<G>>| -> LinearCombination<Fr<G>> {
            match phantom {
                Some((_, c)) if k % 2 == 0 => lc + Variable::Phantom(std::marker::PhantomData) * c,
                _ => lc,
            }
        };
        if let Some((at, c)) = phantom {
            if k % 2 == 1 {
                // spliced into the term list itself
                let mut v: Vec<(Variable<Fr<G>>, Fr<G>)> = terms.iter().map(|(v, c)| (self.real(v), *c)).collect();
                v.insert(at, (Variable::Phantom(std::marker::PhantomData), c));
                return v.into_iter().collect();
            }
        }
        let term = |v: &Var, c: Fr<G>| -> LinearCombination<Fr<G>> {
            if matches!(v, Var::One) && k % 2 == 0 {
                LinearCombination::from(c)
            } else {
                self.real(v) * c
            }
        };
        with_phantom(match style {
            1 => terms.iter().fold(LinearCombination::default(), |acc, (v, c)| acc + term(v, *c)),
            2 => terms.iter().fold(LinearCombination::default(), |acc, (v, c)| acc - term(v, -*c)),
            3 => {
                let mut it = terms.iter();
                match it.next() {
                    None => LinearCombination::default(),
                    Some((v0, c0)) => it.fold(term(v0, *c0), |acc, (v, c)| acc + term(v, *c)),
                }
            }
            4 => -terms.iter().map(|(v, c)| (self.real(v), -*c)).collect::<LinearCombination<Fr<G>>>(),
            5 => {
                let two = Fr::<G>::from(2u64);
                let half = ark_ff::Field::inverse(&two).unwrap();
                terms.iter().map(|(v, c)| (self.real(v), *c * half)).collect::<LinearCombination<Fr<G>>>() * two
            }
            6 => {
                // variable-led: v0 + (c0 - 1)·v0 + rest
                let mut it = terms.iter();
                match it.next() {
                    None => LinearCombination::default(),
                    Some((v0, c0)) => {
                        let start = self.real(v0) + self.real(v0) * (*c0 - Fr::<G>::one());
                        it.fold(start, |acc, (v, c)| acc + term(v, *c))
                    }
                }
            }
            7 => {
                // variable-led with subtraction and a negated variable: v0 − ((1 − c0)·v0) − Σ (−cᵢ)·vᵢ
                let mut it = terms.iter();
                match it.next() {
                    None => LinearCombination::default(),
                    Some((v0, c0)) => {
                        let start = self.real(v0) - (-self.real(v0)) * (*c0 - Fr::<G>::one());
                        it.fold(start, |acc, (v, c)| acc - term(v, -*c))
                    }
                }
            }
            8 => {
                // a short combination minus a longer one: first term − Σ (−cᵢ)·vᵢ of the rest
                match terms.split_first() {
                    None => LinearCombination::default(),
                    Some(((v0, c0), rest)) => {
                        let right: LinearCombination<Fr<G>> = rest.iter().map(|(v, c)| (self.real(v), -*c)).collect();
                        LinearCombination::from(self.real(v0)) * *c0 - right
                    }
                }
            }
            _ => terms.iter().map(|(v, c)| (self.real(v), *c)).collect(),
        })
    }
    fn record(&self, what: &'static str, ret: &[Variable<Fr<G>>], exp: &[Var], len_real: usize) {
        let m = self.model.borrow();
        {
            let mut vm = self.varmap.borrow_mut();
            for (r, e) in ret.iter().zip(exp.iter()) {
                vm.insert(*e, *r);
            }
        }
        self.calls.borrow_mut().push(CallRec {
            what,
            phase2: m.in_phase2(),
            ret: ret.iter().map(conv_var).collect(),
            exp: exp.to_vec(),
            len_real,
            len_model: m.gates(),
        });
    }
}

pub fn direct_var<F: ark_ff::PrimeField>(v: &Var) -> Variable<F> {
    match v {
        Var::Com(i) => Variable::Committed(*i),
        Var::L(i) => Variable::MultiplierLeft(*i),
        Var::R(i) => Variable::MultiplierRight(*i),
        Var::O(i) => Variable::MultiplierOutput(*i),
        Var::One => Variable::One(),
    }
}

pub fn conv_var<F: ark_ff::PrimeField>(v: &Variable<F>) -> Var {
    match v {
        Variable::Committed(i) => Var::Com(*i),
        Variable::MultiplierLeft(i) => Var::L(*i),
        Variable::MultiplierRight(i) => Var::R(*i),
        Variable::MultiplierOutput(i) => Var::O(*i),
        Variable::One() => Var::One,
        _ => Var::One,
    }
}

/// Ops available in both phases.
pub fn run_common<G, CS>(
    cs: &mut CS,
    ops: &[Op],
    ctx: &Ctx<G>,
    chal: &dyn Fn(&mut CS, &'static [u8]) -> Fr<G>,
) -> Result<(), R1CSError>
where
    G: AffineRepr,
    CS: ConstraintSystem<Fr<G>> + VerifTamper<Fr<G>>,
{
    for op in ops {
        if matches!(op, Op::Alloc { .. } | Op::AllocMul { .. }) {
            let k = ctx.alloc_calls.get();
            ctx.alloc_calls.set(k + 1);
            if ctx.is_prover && ctx.missing_at.get() == Some(k) {
                let len_before = cs.multipliers_len();
                let r = match op {
                    Op::Alloc { .. } => cs.allocate(None).map(|_| ()),
                    _ => cs.allocate_multiplier(None).map(|_| ()),
                };
                *ctx.missing_result.borrow_mut() = Some(r.clone());
                ctx.missing_len.set(Some((len_before, cs.multipliers_len())));
                if !(ctx.missing_retry.get() && r.is_err()) {
                    // a gadget stops at the error
                    return Err(r.err().unwrap_or(R1CSError::GadgetError { description: "harness: call without assignment succeeded".into() }));
                }
                // retry mode: the caller supplies the assignment after all and carries on
            }
        }
        match op {
            Op::Alloc { val } => {
                let (v, exp) = {
                    let mut m = ctx.model.borrow_mut();
                    let v = m.sc(val);
                    (v, m.alloc(v))
                };
                let arg = if ctx.is_prover { Some(v) } else { None };
                let h = cs.allocate(arg).expect("allocate with an assignment must not fail");
                ctx.record("allocate", &[h], &[exp], cs.multipliers_len());
            }
            Op::AllocMul { l, r } => {
                let (lv, rv, exp) = {
                    let mut m = ctx.model.borrow_mut();
                    let lv = m.sc(l);
                    let rv = m.sc(r);
                    (lv, rv, m.alloc_mul(lv, rv))
                };
                let arg = if ctx.is_prover { Some((lv, rv)) } else { None };
                let (a, b, c) = cs.allocate_multiplier(arg).expect("allocate_multiplier must not fail");
                ctx.record("allocate_multiplier", &[a, b, c], &[exp.0, exp.1, exp.2], cs.multipliers_len());
            }
            Op::Mul { left, right } => {
                let (lt, rt) = {
                    let m = ctx.model.borrow();
                    (m.resolve(left), m.resolve(right))
                };
                // the two operands are spelled the same way every other time
                let k0 = ctx.lc_count.get();
                let ll = ctx.real_lc(&lt);
                if k0 % 2 == 0 {
                    ctx.lc_count.set(k0);
                }
                let rl = ctx.real_lc(&rt);
                ctx.lc_count.set(k0 + 2);
                let exp = ctx.model.borrow_mut().mul(lt, rt);
                let (a, b, c) = cs.multiply(ll, rl);
                ctx.record("multiply", &[a, b, c], &[exp.0, exp.1, exp.2], cs.multipliers_len());
            }
            Op::Constrain { lc, err, base } => {
                let terms = {
                    let m = ctx.model.borrow();
                    let mut t = m.resolve(lc);
                    let k = match base {
                        Some(b) => m.eval_terms(&m.resolve(b)),
                        None => m.eval_terms(&t),
                    };
                    let e: Fr<G> = err.as_ref().map(|e| e.to_f()).unwrap_or(Fr::<G>::zero());
                    // a zero constant is spelled out only every other time
                    if !(e - k).is_zero() || ctx.lc_count.get() % 2 == 1 {
                        t.push((Var::One, e - k));
                    }
                    t
                };
                let real = ctx.real_lc(&terms);
                ctx.model.borrow_mut().constrain(terms);
                cs.constrain(real);
                ctx.record("constrain", &[], &[], cs.multipliers_len());
            }
            Op::TData { label, bytes } => {
                cs.transcript().append_message(ULABELS[*label as usize], bytes);
            }
            Op::Tamper { gate, dl, dr, dout } => {
                let r = ctx.model.borrow_mut().tamper(*gate, dl.to_f(), dr.to_f(), dout.to_f());
                if let Some((l, r, o)) = r {
                    cs.verif_overwrite_gate(*gate, l, r, o);
                }
            }
            Op::Challenge { label } => {
                let c = chal(cs, CLABELS[*label as usize]);
                ctx.model.borrow_mut().regs.push(c);
                ctx.challenges.borrow_mut().push(c);
            }
            Op::Commit { .. } | Op::Closure(_) => {
                unreachable!("commit / closure registration handled by the first-phase driver")
            }
        }
    }
    Ok(())
}

/// Role-specific part of the API (commit is an inherent method on both roles).
pub trait RoleCs<G: AffineRepr>: RandomizableConstraintSystem<Fr<G>> + VerifTamper<Fr<G>> {
    fn do_commit(&mut self, ctx: &Ctx<G>, v: Fr<G>, blind: Fr<G>) -> Variable<Fr<G>>;
}

impl<'g, G: AffineRepr, T: BorrowMut<Transcript>> RoleCs<G> for Prover<'g, G, T> {
    fn do_commit(&mut self, ctx: &Ctx<G>, v: Fr<G>, blind: Fr<G>) -> Variable<Fr<G>> {
        let (c, var) = self.commit(v, blind);
        ctx.commitments.borrow_mut().push(c);
        var
    }
}

impl<G: AffineRepr, T: BorrowMut<Transcript>> RoleCs<G> for Verifier<G, T> {
    fn do_commit(&mut self, ctx: &Ctx<G>, _v: Fr<G>, _blind: Fr<G>) -> Variable<Fr<G>> {
        let i = ctx.next_commit.get();
        ctx.next_commit.set(i + 1);
        let c = *ctx
            .commitments
            .borrow()
            .get(i)
            .expect("harness: verifier program has more commits than commitments supplied");
        self.commit(c)
    }
}

pub fn run_phase1<G, CS>(cs: &mut CS, ops: &[Op], ctx: &Rc<Ctx<G>>) -> Result<(), R1CSError>
where
    G: AffineRepr + 'static,
    CS: RoleCs<G>,
    CS::RandomizedCS: VerifTamper<Fr<G>>,
{
    for op in ops {
        match op {
            Op::Commit { v, blind } => {
                let (vf, bf): (Fr<G>, Fr<G>) = (v.to_f(), blind.to_f());
                let exp = ctx.model.borrow_mut().commit(vf, bf);
                let h = cs.do_commit(ctx, vf, bf);
                ctx.record("commit", &[h], &[exp], cs.multipliers_len());
            }
            Op::Closure(body) => {
                let body: Rc<Vec<Op>> = Rc::new(body.clone());
                let c = ctx.clone();
                cs.specify_randomized_constraints(move |rcs| {
                    c.model.borrow_mut().enter_phase2();
                    run_common::<G, CS::RandomizedCS>(rcs, &body, &c, &|cs, l| cs.challenge_scalar(l))
                })
                .expect("specify_randomized_constraints must not fail");
            }
            other => run_common::<G, CS>(cs, std::slice::from_ref(other), ctx, &|_, _| {
                panic!("harness: challenge op in the first phase")
            })?,
        }
    }
    Ok(())
}

pub fn make_transcript(prog: &Program) -> Transcript {
    let mut t = Transcript::new(TLABELS[prog.tlabel as usize]);
    for (l, b) in &prog.pre {
        t.append_message(ULABELS[*l as usize], b);
    }
    t
}

fn next_challenge(t: &mut Transcript) -> [u8; 32] {
    let mut buf = [0u8; 32];
    t.challenge_bytes(b"verif-next", &mut buf);
    buf
}

// ---------------------------------------------------------------------------------------
// prover

#[derive(Clone, Default)]
pub struct ProveOpts<G: AffineRepr> {
    pub record: bool,
    /// scripted output of the transcript RNG
    pub script: Option<Vec<u8>>,
    pub cap: Option<usize>,
    pub pc_gens: Option<PedersenGens<G>>,
    pub seed: Option<u64>,
    /// construct variables directly instead of using returned handles
    pub direct_vars: bool,
    /// make the k-th allocation call without an assignment
    pub missing_at: Option<usize>,
    pub missing_retry: bool,
    /// continue on this transcript instead of creating a fresh one (chained proofs)
    pub start: Option<Transcript>,
    /// the caller's RNG cannot deliver randomness
    pub failing_rng: bool,
    /// the caller's RNG delivers this byte only
    pub constant_rng: Option<u8>,
    /// the generator object holds `real_cap` generators but its capacity field says `cap`
    pub real_cap: Option<usize>,
}

pub struct ProveOut<G: AffineRepr> {
    pub proof: Option<R1CSProof<G>>,
    pub err: Option<R1CSError>,
    pub panic: Option<String>,
    pub bytes: Option<Vec<u8>>,
    pub commitments: Vec<G>,
    pub model: Model<Fr<G>>,
    pub calls: Vec<CallRec>,
    pub challenges: Vec<Fr<G>>,
    pub log: Vec<Event>,
    pub main_id: u64,
    pub ext_bytes: usize,
    pub next_challenge: Option<[u8; 32]>,
    pub script: Option<instr::ScriptStatus>,
    pub cap: usize,
    pub missing_result: Option<Result<(), R1CSError>>,
    pub missing_len: Option<(usize, usize)>,
    /// the transcript after proving (for chaining)
    pub end: Option<Transcript>,
}

impl<G: AffineRepr> ProveOut<G> {
    pub fn ok(&self) -> bool {
        self.proof.is_some()
    }
}

pub fn run_prover<G: CurveTag>(prog: &Program, opts: &ProveOpts<G>) -> ProveOut<G> {
    let shape = prog.shape();
    let cap = opts.cap.unwrap_or_else(|| prog.cap_p.resolve(shape.padded()));
    let mut gens = bp_gens_mode::<G>(cap, prog.party_cap as usize, prog.gens);
    if let Some(rc) = opts.real_cap {
        let mut g = BulletproofGens::<G>::new(rc, prog.party_cap as usize);
        g.gens_capacity = cap;
        gens = Rc::new(g);
    }
    let pc = opts.pc_gens.unwrap_or_else(|| prog_pc::<G>(prog));
    let ctx = Ctx::<G>::new(true, vec![]);
    let ctx = if opts.direct_vars {
        let mut c = Rc::try_unwrap(ctx).ok().expect("fresh");
        c.use_returned = false;
        Rc::new(c)
    } else {
        ctx
    };
    ctx.missing_at.set(opts.missing_at);
    ctx.missing_retry.set(opts.missing_retry);
    let mut rng = CountingRng::new(opts.seed.unwrap_or(prog.seed), 1);
    rng.failing = opts.failing_rng;
    rng.constant = opts.constant_rng;
    let mut t = match &opts.start {
        Some(s) => {
            let mut t = s.clone();
            for (l, b) in &prog.pre {
                t.append_message(ULABELS[*l as usize], b);
            }
            t
        }
        None => make_transcript(prog),
    };
    let main_id = t.instr_id();
    if opts.record {
        instr::start();
    }
    let res = guarded(|| {
        if prog.owned {
            let mut p = Prover::new(&pc, t);
            if let Err(e) = run_phase1(&mut p, &prog.ops, &ctx) {
                return (Err(e), None);
            }
            if let Some(s) = &opts.script {
                instr::set_script(s.clone());
            }
            let r = p.prove_and_return_transcript(&mut rng, &gens);
            let st = instr::clear_script();
            (r.map(|(pf, tt)| { let end = tt.clone(); let mut tt = tt; (pf, next_challenge(&mut tt), end) }), st)
        } else {
            let r = {
                let mut p = Prover::new(&pc, &mut t);
                if let Err(e) = run_phase1(&mut p, &prog.ops, &ctx) {
                    return (Err(e), None);
                }
                if let Some(s) = &opts.script {
                    instr::set_script(s.clone());
                }
                p.prove_and_return_transcript(&mut rng, &gens)
            };
            let st = instr::clear_script();
            match r {
                Ok((pf, tt)) => {
                    let end = tt.clone();
                    let nc = next_challenge(tt);
                    (Ok((pf, nc, end)), st)
                }
                Err(e) => (Err(e), st),
            }
        }
    });
    let log = if opts.record { instr::take() } else { vec![] };
    ctx.model.borrow_mut().enter_phase2();
    let mut out = ProveOut {
        proof: None,
        err: None,
        panic: None,
        bytes: None,
        commitments: ctx.commitments.borrow().clone(),
        model: ctx.model.borrow().clone(),
        calls: ctx.calls.borrow().clone(),
        challenges: ctx.challenges.borrow().clone(),
        log,
        main_id,
        ext_bytes: rng.bytes,
        next_challenge: None,
        script: None,
        cap,
        missing_result: ctx.missing_result.borrow().clone(),
        missing_len: ctx.missing_len.get(),
        end: None,
    };
    match res {
        Err(p) => out.panic = Some(p),
        Ok((Err(e), st)) => {
            out.err = Some(e);
            out.script = st;
        }
        Ok((Ok((pf, nc, end)), st)) => {
            out.end = Some(end);
            out.bytes = pf.to_bytes().ok();
            out.proof = Some(pf);
            out.next_challenge = Some(nc);
            out.script = st;
        }
    }
    out
}

// ---------------------------------------------------------------------------------------
// verifier

#[derive(Clone)]
pub struct VerifyOpts<G: AffineRepr> {
    pub record: bool,
    pub cap: Option<usize>,
    pub pc_gens: Option<PedersenGens<G>>,
    pub start: Option<Transcript>,
    /// a generator object that overstates itself: it holds `real_cap` generators per party but
    /// its public capacity field says `cap` (a hand-edited or tampered-with serialised object)
    pub real_cap: Option<usize>,
}

impl<G: AffineRepr> Default for VerifyOpts<G> {
    fn default() -> Self {
        VerifyOpts { record: false, cap: None, pc_gens: None, start: None, real_cap: None }
    }
}

pub struct VerifyOut<G: AffineRepr> {
    pub result: Option<Result<(), R1CSError>>,
    pub panic: Option<String>,
    pub model: Model<Fr<G>>,
    pub calls: Vec<CallRec>,
    pub challenges: Vec<Fr<G>>,
    pub log: Vec<Event>,
    pub main_id: u64,
    pub next_challenge: Option<[u8; 32]>,
    pub cap: usize,
    pub end: Option<Transcript>,
}

impl<G: AffineRepr> VerifyOut<G> {
    pub fn accepted(&self) -> bool {
        matches!(self.result, Some(Ok(())))
    }
    pub fn verdict(&self) -> String {
        match (&self.result, &self.panic) {
            (_, Some(p)) => format!("PANIC({})", p),
            (Some(Ok(())), _) => "Ok".into(),
            (Some(Err(e)), _) => format!("Err({:?})", e),
            _ => "?".into(),
        }
    }
}

pub fn run_verifier<G: CurveTag>(
    prog: &Program,
    commitments: &[G],
    proof: &R1CSProof<G>,
    opts: &VerifyOpts<G>,
) -> VerifyOut<G> {
    let shape = prog.shape();
    let cap = opts.cap.unwrap_or_else(|| prog.cap_v.resolve(shape.padded()));
    // the verifier's generator object is obtained in the next way round
    let mut gens = bp_gens_mode::<G>(cap, prog.party_cap as usize, prog.gens.wrapping_add(1));
    if let Some(rc) = opts.real_cap {
        let mut g = BulletproofGens::<G>::new(rc, prog.party_cap as usize);
        g.gens_capacity = cap;
        gens = Rc::new(g);
    }
    let pc = opts.pc_gens.unwrap_or_else(|| prog_pc::<G>(prog));
    let ctx = Ctx::<G>::new(false, commitments.to_vec());
    ctx.lc_shift.set(if prog.seed % 2 == 0 { 0 } else { 3 });
    let mut t = match &opts.start {
        Some(s) => {
            let mut t = s.clone();
            for (l, b) in &prog.pre {
                t.append_message(ULABELS[*l as usize], b);
            }
            t
        }
        None => make_transcript(prog),
    };
    let main_id = t.instr_id();
    if opts.record {
        instr::start();
    }
    let res = guarded(|| {
        if prog.owned {
            let mut v = Verifier::<G, Transcript>::new(t);
            run_phase1(&mut v, &prog.ops, &ctx).expect("verifier-side construction never fails");
            v.verify_and_return_transcript(proof, &pc, &gens).map(|tt| { let end = tt.clone(); let mut tt = tt; (next_challenge(&mut tt), end) })
        } else {
            let r = {
                let mut v = Verifier::<G, &mut Transcript>::new(&mut t);
                run_phase1(&mut v, &prog.ops, &ctx).expect("verifier-side construction never fails");
                v.verify_and_return_transcript(proof, &pc, &gens)
            };
            r.map(|tt| { let end = tt.clone(); (next_challenge(tt), end) })
        }
    });
    let log = if opts.record { instr::take() } else { vec![] };
    ctx.model.borrow_mut().enter_phase2();
    let mut out = VerifyOut {
        result: None,
        panic: None,
        model: ctx.model.borrow().clone(),
        calls: ctx.calls.borrow().clone(),
        challenges: ctx.challenges.borrow().clone(),
        log,
        main_id,
        next_challenge: None,
        cap,
        end: None,
    };
    match res {
        Err(p) => out.panic = Some(p),
        Ok(Ok((nc, end))) => {
            out.result = Some(Ok(()));
            out.next_challenge = Some(nc);
            out.end = Some(end);
        }
        Ok(Err(e)) => out.result = Some(Err(e)),
    }
    out
}

/// One member of a batch.
pub struct BatchMember<'a, G: AffineRepr> {
    pub prog: &'a Program,
    pub commitments: &'a [G],
    pub proof: &'a R1CSProof<G>,
}

/// Run `batch_verify` over the members (every member gets a fresh verifier built from its
/// program). `cap` is the shared generator capacity.
pub fn run_batch<G: CurveTag>(
    members: &[BatchMember<G>],
    cap: usize,
    seed: u64,
) -> (Option<Result<(), R1CSError>>, Option<String>) {
    let gens = bp_gens::<G>(cap, members.first().map(|m| m.prog.party_cap as usize).unwrap_or(1).max(1));
    // one pair of bases per batch: that of its first member (callers keep members consistent)
    let pc = members.first().map(|m| prog_pc::<G>(m.prog)).unwrap_or_else(pc_gens::<G>);
    let mut transcripts: Vec<Transcript> = members.iter().map(|m| make_transcript(m.prog)).collect();
    let mut rng = CountingRng::new(seed, 2);
    let res = guarded(|| {
        let mut instances = vec![];
        for (m, t) in members.iter().zip(transcripts.iter_mut()) {
            let ctx = Ctx::<G>::new(false, m.commitments.to_vec());
            ctx.lc_shift.set(if m.prog.seed % 2 == 0 { 0 } else { 3 });
            let mut v = Verifier::<G, &mut Transcript>::new(t);
            run_phase1(&mut v, &m.prog.ops, &ctx).expect("verifier-side construction never fails");
            instances.push((v, m.proof));
        }
        // the instances reach `batch_verify` through iterators of different kinds (exact and
        // inexact size hints), chosen by the seed
        match seed % 5 {
            1 => batch_verify(&mut rng, instances.into_iter().filter(|_| true), &pc, &gens),
            2 => batch_verify(&mut rng, instances.into_iter().flat_map(|x| Some(x)), &pc, &gens),
            3 => {
                let mut it = instances.into_iter();
                batch_verify(&mut rng, std::iter::from_fn(move || it.next()), &pc, &gens)
            }
            4 => batch_verify(&mut rng, instances.into_iter().take_while(|_| true), &pc, &gens),
            _ => batch_verify(&mut rng, instances, &pc, &gens),
        }
    });
    match res {
        Ok(r) => (Some(r), None),
        Err(p) => (None, Some(p)),
    }
}

/// Convenience: honest prove followed by verify with the same program.
pub fn prove_and_verify<G: CurveTag>(prog: &Program) -> (ProveOut<G>, Option<VerifyOut<G>>) {
    let p = run_prover::<G>(prog, &ProveOpts::default());
    let v = p.proof.as_ref().map(|pf| run_verifier::<G>(prog, &p.commitments, pf, &VerifyOpts::default()));
    (p, v)
}

pub fn lc_is_trivial(lc: &Lc) -> bool {
    lc.iter().all(|(v, _)| matches!(v, Var::One))
}

#[allow(dead_code)]
fn _unused<G: AffineRepr>() -> Fr<G> {
    Fr::<G>::one()
}

/// Drive only the first phase on both roles (no proof needed) and hand back the call records.
pub fn phase1_calls<G: CurveTag>(prog: &Program) -> Result<(Vec<CallRec>, Vec<CallRec>), String> {
    let pc = prog_pc::<G>(prog);
    guarded(|| {
        let ctxp = Ctx::<G>::new(true, vec![]);
        let mut tp = make_transcript(prog);
        {
            let mut p = Prover::new(&pc, &mut tp);
            let _ = run_phase1(&mut p, &prog.ops, &ctxp);
        }
        let ctxv = Ctx::<G>::new(false, ctxp.commitments.borrow().clone());
        let mut tv = make_transcript(prog);
        {
            let mut v = Verifier::<G, &mut Transcript>::new(&mut tv);
            let _ = run_phase1(&mut v, &prog.ops, &ctxv);
        }
        let a = ctxp.calls.borrow().clone();
        let b = ctxv.calls.borrow().clone();
        (a, b)
    })
}
