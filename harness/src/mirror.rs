//! Mirror of the proof object's wire layout. `R1CSProof` has no public fields, but its
//! encoding is the derived ark-serialize layout; a struct with the same field sequence and
//! the same derives round-trips byte-identically. Every structurally arbitrary proof is
//! built here, serialized, and handed to the real `from_bytes`.
#![allow(non_snake_case)]
use ark_bulletproofs::r1cs::R1CSProof;
use ark_ec::AffineRepr;
use ark_serialize::{CanonicalDeserialize, CanonicalSerialize, Compress, Validate};

#[derive(Clone, Debug, PartialEq, Eq, CanonicalSerialize, CanonicalDeserialize)]
pub struct IppMirror<G: AffineRepr> {
    pub L: Vec<G>,
    pub R: Vec<G>,
    pub a: G::ScalarField,
    pub b: G::ScalarField,
}

#[derive(Clone, Debug, PartialEq, Eq, CanonicalSerialize, CanonicalDeserialize)]
pub struct ProofMirror<G: AffineRepr> {
    pub A_I1: G,
    pub A_O1: G,
    pub S1: G,
    pub A_I2: G,
    pub A_O2: G,
    pub S2: G,
    pub T_1: G,
    pub T_3: G,
    pub T_4: G,
    pub T_5: G,
    pub T_6: G,
    pub t_x: G::ScalarField,
    pub t_x_blinding: G::ScalarField,
    pub e_blinding: G::ScalarField,
    pub ipp: IppMirror<G>,
}

pub const POINT_NAMES: [&str; 11] =
    ["A_I1", "A_O1", "S1", "A_I2", "A_O2", "S2", "T_1", "T_3", "T_4", "T_5", "T_6"];
pub const SCALAR_NAMES: [&str; 5] = ["t_x", "t_x_blinding", "e_blinding", "a", "b"];

impl<G: AffineRepr> ProofMirror<G> {
    pub fn from_bytes(b: &[u8]) -> Option<Self> {
        let mut c = b;
        Self::deserialize_with_mode(&mut c, Compress::Yes, Validate::Yes).ok()
    }
    /// decode without curve / subgroup checks
    pub fn from_bytes_unchecked(b: &[u8]) -> Option<Self> {
        let mut c = b;
        Self::deserialize_with_mode(&mut c, Compress::Yes, Validate::No).ok()
    }
    pub fn to_bytes(&self) -> Vec<u8> {
        let mut v = vec![];
        self.serialize_compressed(&mut v).unwrap();
        v
    }
    pub fn from_proof(p: &R1CSProof<G>) -> Self {
        Self::from_bytes(&p.to_bytes().expect("to_bytes")).expect("mirror decodes real encoding")
    }
    /// hand the object to the real decoder
    pub fn to_real(&self) -> Result<R1CSProof<G>, ark_bulletproofs::r1cs::R1CSError> {
        R1CSProof::from_bytes(&self.to_bytes())
    }
    /// the 11 fixed points, in wire order
    pub fn points(&self) -> [G; 11] {
        [
            self.A_I1, self.A_O1, self.S1, self.A_I2, self.A_O2, self.S2, self.T_1, self.T_3,
            self.T_4, self.T_5, self.T_6,
        ]
    }
    pub fn point_mut(&mut self, i: usize) -> &mut G {
        match i {
            0 => &mut self.A_I1,
            1 => &mut self.A_O1,
            2 => &mut self.S1,
            3 => &mut self.A_I2,
            4 => &mut self.A_O2,
            5 => &mut self.S2,
            6 => &mut self.T_1,
            7 => &mut self.T_3,
            8 => &mut self.T_4,
            9 => &mut self.T_5,
            10 => &mut self.T_6,
            j => {
                let k = self.ipp.L.len();
                let j = j - 11;
                if j < k {
                    &mut self.ipp.L[j]
                } else {
                    &mut self.ipp.R[j - k]
                }
            }
        }
    }
    /// number of point slots: 11 + |L| + |R|
    pub fn n_points(&self) -> usize {
        11 + self.ipp.L.len() + self.ipp.R.len()
    }
    pub fn point_name(&self, i: usize) -> String {
        if i < 11 {
            POINT_NAMES[i].to_string()
        } else if i - 11 < self.ipp.L.len() {
            format!("L[{}]", i - 11)
        } else {
            format!("R[{}]", i - 11 - self.ipp.L.len())
        }
    }
    pub fn scalar_mut(&mut self, i: usize) -> &mut G::ScalarField {
        match i {
            0 => &mut self.t_x,
            1 => &mut self.t_x_blinding,
            2 => &mut self.e_blinding,
            3 => &mut self.ipp.a,
            _ => &mut self.ipp.b,
        }
    }
    pub fn scalars(&self) -> [G::ScalarField; 5] {
        [self.t_x, self.t_x_blinding, self.e_blinding, self.ipp.a, self.ipp.b]
    }
}
