//! Search engines (proptest over choice bytes, parallel exhaustive enumeration), statistics,
//! evidence and replay files, exit codes.
use proptest::collection::vec as pvec;
use proptest::prelude::any;
use proptest::test_runner::{Config, RngSeed, TestCaseError, TestError, TestRunner};
use serde_json::{json, Value};
use std::collections::{BTreeMap, HashSet};
use std::sync::atomic::{AtomicBool, Ordering};
use std::sync::Mutex;
use std::time::Instant;

pub const WORKERS: usize = 16;

#[derive(Clone, Debug)]
pub struct Failure {
    pub msg: String,
    /// exact signature used to match entries of known_findings.json
    pub signature: String,
    pub case: Value,
}

impl Failure {
    pub fn new(signature: impl Into<String>, msg: impl Into<String>, case: Value) -> Failure {
        Failure { msg: msg.into(), signature: signature.into(), case }
    }
}

#[derive(Default, Clone)]
pub struct Collector {
    pub evals: u64,
    /// generated cases (evals may additionally count sub-evaluations inside a case)
    pub cases: u64,
    pub classes: BTreeMap<String, u64>,
    pub nontrivial: HashSet<u64>,
    pub samples: Vec<Value>,
    pub nt_samples: Vec<Value>,
    pub notes: BTreeMap<String, u64>,
    pub frozen: bool,
    pub offers: u64,
}

impl Collector {
    pub fn eval(&mut self) {
        if !self.frozen {
            self.evals += 1;
            self.cases += 1;
        }
    }
    pub fn evals_add(&mut self, n: u64) {
        if !self.frozen {
            self.evals += n;
        }
    }
    pub fn class(&mut self, c: &str) {
        if !self.frozen {
            *self.classes.entry(c.to_string()).or_insert(0) += 1;
        }
    }
    pub fn note(&mut self, c: &str) {
        if !self.frozen {
            *self.notes.entry(c.to_string()).or_insert(0) += 1;
        }
    }
    pub fn nontrivial(&mut self, fp: u64) {
        if !self.frozen {
            self.nontrivial.insert(fp);
        }
    }
    /// offer a sample (rendered lazily); a few per worker are kept. Among the first 150 offers
    /// the more elaborate ones (longer rendering, up to 3 KB) replace simpler ones, so that the
    /// evidence shows representative rather than minimal cases.
    pub fn sample(&mut self, nontrivial: bool, f: impl FnOnce() -> Value) {
        if self.frozen {
            return;
        }
        let (list, cap) = if nontrivial { (&mut self.nt_samples, 2) } else { (&mut self.samples, 1) };
        self.offers += 1;
        if list.len() < cap {
            list.push(f());
            return;
        }
        if self.offers > 150 {
            return;
        }
        let v = f();
        let len = v.to_string().len();
        if len > 3000 {
            return;
        }
        if let Some((i, l)) = list.iter().enumerate().map(|(i, x)| (i, x.to_string().len())).min_by_key(|(_, l)| *l) {
            if len > l {
                list[i] = v;
            }
        }
    }
    pub fn merge(&mut self, o: Collector) {
        self.evals += o.evals;
        self.cases += o.cases;
        for (k, v) in o.classes {
            *self.classes.entry(k).or_insert(0) += v;
        }
        for (k, v) in o.notes {
            *self.notes.entry(k).or_insert(0) += v;
        }
        self.nontrivial.extend(o.nontrivial);
        self.samples.extend(o.samples);
        self.nt_samples.extend(o.nt_samples);
    }
    pub fn class_count(&self, c: &str) -> u64 {
        self.classes.get(c).copied().unwrap_or(0)
    }
}

pub fn fp_of<T: std::hash::Hash>(t: &T) -> u64 {
    use std::hash::Hasher;
    let mut h = std::collections::hash_map::DefaultHasher::new();
    t.hash(&mut h);
    h.finish()
}

pub type CaseFn<'a> = dyn Fn(&[u8], &mut Collector) -> Result<(), Failure> + Sync + 'a;

pub struct Found {
    pub failure: Failure,
    pub bytes: Option<Vec<u8>>,
    pub sub: String,
}

#[derive(Default)]
pub struct Outcome {
    pub stats: Collector,
    pub found: Vec<Found>,
    pub exhaustive: bool,
}

impl Outcome {
    pub fn merge(&mut self, o: Outcome) {
        self.stats.merge(o.stats);
        self.found.extend(o.found);
    }
}

/// Random search with shrinking: `cases` byte strings of length < `max_len`, split over 16
/// workers with disjoint fixed seeds derived from `seed`.
pub fn search(sub: &str, seed: u64, cases: u64, max_len: usize, f: &CaseFn) -> Outcome {
    search_len(sub, seed, cases, 0, max_len, f)
}

/// like `search`, with a lower bound on the length of the choice sequence (generators that
/// consume thousands of choices would otherwise mostly run on an exhausted, all-zero tail)
pub fn search_len(sub: &str, seed: u64, cases: u64, min_len: usize, max_len: usize, f: &CaseFn) -> Outcome {
    let stop = AtomicBool::new(false);
    let done = AtomicBool::new(false);
    let results: Mutex<Vec<(Collector, Option<(Failure, Vec<u8>)>)>> = Mutex::new(vec![]);
    let workers = WORKERS.min(cases.max(1) as usize);
    let per = (cases + workers as u64 - 1) / workers as u64;
    let sub_hash = fp_of(&sub.to_string()) & 0xfff_ffff;
    std::thread::scope(|s| {
        for w in 0..workers {
            let stop = &stop;
            let done = &done;
            let results = &results;
            s.spawn(move || {
                let mut cfg = Config::default();
                cfg.cases = per as u32;
                cfg.failure_persistence = None;
                cfg.rng_seed = RngSeed::Fixed(seed.wrapping_mul(64).wrapping_add(w as u64).wrapping_add(0x5eed_0000) ^ (sub_hash << 20));
                cfg.max_shrink_iters = 300;
                cfg.max_shrink_time = 40_000;
                cfg.verbose = 0;
                let mut runner = TestRunner::new(cfg);
                let col = std::cell::RefCell::new(Collector::default());
                let last_fail: std::cell::RefCell<Option<Failure>> = std::cell::RefCell::new(None);
                let strat = pvec(any::<u8>(), min_len..max_len);
                let r = runner.run(&strat, |bytes| {
                    if stop.load(Ordering::Relaxed) && !col.borrow().frozen {
                        return Ok(());
                    }
                    if done.load(Ordering::Relaxed) {
                        // another worker already delivered a shrunk failure: wind down
                        return Ok(());
                    }
                    let mut c = col.borrow_mut();
                    c.eval();
                    breadcrumb(sub, &bytes);
                    match f(&bytes, &mut c) {
                        Ok(()) => Ok(()),
                        Err(fl) => {
                            c.frozen = true;
                            stop.store(true, Ordering::Relaxed);
                            let m = fl.msg.clone();
                            *last_fail.borrow_mut() = Some(fl);
                            Err(TestCaseError::fail(m))
                        }
                    }
                });
                let fail = match r {
                    Ok(()) => None,
                    Err(TestError::Fail(_, _)) if done.load(Ordering::Relaxed) => None,
                    Err(TestError::Fail(_, bytes)) => {
                        stop.store(true, Ordering::Relaxed);
                        done.store(true, Ordering::Relaxed);
                        // re-run the minimal input to get its own failure record
                        let mut scratch = Collector::default();
                        scratch.frozen = true;
                        let fl = match f(&bytes, &mut scratch) {
                            Err(fl) => fl,
                            Ok(()) => last_fail.borrow_mut().take().expect("failure recorded"),
                        };
                        Some((fl, bytes))
                    }
                    Err(TestError::Abort(why)) => Some((
                        Failure::new("machinery:abort", format!("proptest aborted: {}", why), json!(null)),
                        vec![],
                    )),
                };
                let mut c = col.into_inner();
                c.frozen = false;
                results.lock().unwrap().push((c, fail));
            });
        }
    });
    let mut out = Outcome::default();
    for (c, fail) in results.into_inner().unwrap() {
        out.stats.merge(c);
        if let Some((fl, b)) = fail {
            out.found.push(Found { failure: fl, bytes: Some(b), sub: sub.to_string() });
        }
    }
    out
}

/// Parallel exhaustive enumeration over `items`.
// ---------------------------------------------------------------------------------------
// breadcrumbs: the case each worker is about to judge, kept on disk so that a run that is killed
// from inside the library under test (allocation failure, abort) still leaves a replayable case

static BREADCRUMBS: std::sync::atomic::AtomicBool = std::sync::atomic::AtomicBool::new(false);
static BREADCRUMB_SLOT: std::sync::atomic::AtomicUsize = std::sync::atomic::AtomicUsize::new(0);
thread_local! {
    static MY_SLOT: std::cell::Cell<usize> = std::cell::Cell::new(usize::MAX);
}

/// switch breadcrumbs on for the rest of the run (property `id`)
pub fn enable_breadcrumbs(id: &str) {
    let dir = format!("{}/replays", crate::paths::verif_root());
    let _ = std::fs::create_dir_all(&dir);
    if let Ok(rd) = std::fs::read_dir(&dir) {
        for e in rd.flatten() {
            if e.file_name().to_string_lossy().starts_with(&format!(".current-{}-", id)) {
                let _ = std::fs::remove_file(e.path());
            }
        }
    }
    BREADCRUMBS.store(true, Ordering::Relaxed);
}

fn breadcrumb(sub: &str, bytes: &[u8]) {
    if !BREADCRUMBS.load(Ordering::Relaxed) {
        return;
    }
    let slot = MY_SLOT.with(|s| {
        if s.get() == usize::MAX {
            s.set(BREADCRUMB_SLOT.fetch_add(1, Ordering::Relaxed));
        }
        s.get()
    });
    let id = sub.split('/').next().unwrap_or("").to_uppercase();
    let path = format!("{}/replays/.current-{}-{}.json", crate::paths::verif_root(), id, slot);
    let body = format!("{{\"property\":\"{}\",\"sub_check\":\"{}\",\"choice_bytes\":\"{}\",\"message\":\"case in progress when the run was killed\"}}", id, sub, hex::encode(bytes));
    let _ = std::fs::write(path, body);
}

/// remove the breadcrumbs of a run that ended normally
pub fn clear_breadcrumbs(id: &str) {
    if !BREADCRUMBS.load(Ordering::Relaxed) {
        return;
    }
    if let Ok(rd) = std::fs::read_dir(format!("{}/replays", crate::paths::verif_root())) {
        for e in rd.flatten() {
            if e.file_name().to_string_lossy().starts_with(&format!(".current-{}-", id)) {
                let _ = std::fs::remove_file(e.path());
            }
        }
    }
}

pub fn enumerate<T: Sync>(
    sub: &str,
    items: &[T],
    enc: &(dyn Fn(&T) -> Vec<u8> + Sync),
    f: &(dyn Fn(&T, &mut Collector) -> Result<(), Failure> + Sync),
) -> Outcome {
    let results: Mutex<Vec<(Collector, Vec<(Failure, Vec<u8>)>)>> = Mutex::new(vec![]);
    let next = std::sync::atomic::AtomicUsize::new(0);
    let workers = WORKERS.min(items.len().max(1));
    std::thread::scope(|s| {
        for _ in 0..workers {
            let results = &results;
            let next = &next;
            s.spawn(move || {
                let mut c = Collector::default();
                let mut fails = vec![];
                loop {
                    let i = next.fetch_add(1, Ordering::Relaxed);
                    if i >= items.len() {
                        break;
                    }
                    c.eval();
                    if BREADCRUMBS.load(Ordering::Relaxed) {
                        breadcrumb(sub, &enc(&items[i]));
                    }
                    if let Err(fl) = f(&items[i], &mut c) {
                        if fails.len() < 3 {
                            fails.push((fl, enc(&items[i])));
                        }
                    }
                }
                results.lock().unwrap().push((c, fails));
            });
        }
    });
    let mut out = Outcome::default();
    out.exhaustive = true;
    for (c, fails) in results.into_inner().unwrap() {
        out.stats.merge(c);
        for (fl, b) in fails {
            out.found.push(Found { failure: fl, bytes: Some(b), sub: sub.to_string() });
        }
    }
    out
}

// ---------------------------------------------------------------------------------------
// reporting

pub struct Report {
    pub id: String,
    pub tier: String,
    pub seed: u64,
    pub level: &'static str,
    pub rule: String,
    pub assumptions: Vec<String>,
    pub outcome: Outcome,
    pub extra: BTreeMap<String, Value>,
    pub started: Instant,
    /// classes that must be hit by ≥ min fraction of evaluations (machinery error otherwise)
    pub required_classes: Vec<(String, f64)>,
}

fn known_findings() -> Vec<(String, String, String)> {
    let p = format!("{}/known_findings.json", crate::paths::verif_root());
    let Ok(s) = std::fs::read_to_string(&p) else { return vec![] };
    let Ok(v) = serde_json::from_str::<Value>(&s) else { return vec![] };
    v["known"]
        .as_array()
        .map(|a| {
            a.iter()
                .map(|e| {
                    (
                        e["property"].as_str().unwrap_or("").to_string(),
                        e["signature"].as_str().unwrap_or("").to_string(),
                        e["what"].as_str().unwrap_or("").to_string(),
                    )
                })
                .collect()
        })
        .unwrap_or_default()
}

impl Report {
    pub fn new(id: &str, tier: &str, seed: u64) -> Report {
        Report {
            id: id.to_string(),
            tier: tier.to_string(),
            seed,
            level: "exploration",
            rule: String::new(),
            assumptions: vec![],
            outcome: Outcome::default(),
            extra: BTreeMap::new(),
            started: Instant::now(),
            required_classes: vec![],
        }
    }

    /// Writes evidence (+ replay files), prints the verdict lines, returns the exit code.
    pub fn finish(mut self) -> i32 {
        clear_breadcrumbs(&self.id);
        let known = known_findings();
        let mut violations = 0;
        let mut machinery = 0;
        let mut lines = vec![];
        let found = std::mem::take(&mut self.outcome.found);
        let mut seen_sig = HashSet::new();
        for fnd in &found {
            if !seen_sig.insert(fnd.failure.signature.clone()) {
                continue;
            }
            if fnd.failure.signature.starts_with("machinery:") {
                machinery += 1;
                lines.push(format!("MACHINERY-ERROR property={} {}", self.id, fnd.failure.msg));
                continue;
            }
            if let Some(k) = known.iter().find(|k| k.0 == self.id && k.1 == fnd.failure.signature) {
                lines.push(format!("KNOWN-FINDING: property={} {}", self.id, k.2));
                continue;
            }
            violations += 1;
            let fp = fp_of(&(fnd.failure.signature.clone(), fnd.bytes.clone()));
            let _ = std::fs::create_dir_all(format!("{}/replays", crate::paths::verif_root()));
            let path = format!("{}/replays/{}-{:016x}.json", crate::paths::verif_root(), self.id, fp);
            let rec = json!({
                "property": self.id,
                "sub_check": fnd.sub,
                "signature": fnd.failure.signature,
                "message": fnd.failure.msg,
                "choice_bytes": fnd.bytes.as_ref().map(hex::encode),
                "case": fnd.failure.case,
                "seed": self.seed,
                "tier": self.tier,
            });
            let _ = std::fs::write(&path, serde_json::to_string_pretty(&rec).unwrap());
            lines.push(format!("VIOLATION property={} replay={}", self.id, path));
            eprintln!("[{}] {}: {}", self.id, fnd.sub, fnd.failure.msg);
        }
        // generator health: required classes
        let st = &self.outcome.stats;
        for (c, min) in self.required_classes.iter().filter(|_| violations == 0) {
            let frac = st.class_count(c) as f64 / (st.cases.max(1) as f64);
            if frac < *min {
                machinery += 1;
                lines.push(format!(
                    "MACHINERY-ERROR property={} class '{}' hit in {:.3}% of cases (< {:.3}%)",
                    self.id,
                    c,
                    frac * 100.0,
                    min * 100.0
                ));
            }
        }
        let mut samples: Vec<Value> = vec![];
        let mut nts: Vec<&Value> = st.nt_samples.iter().collect();
        nts.sort_by_key(|v| std::cmp::Reverse(v.to_string().len()));
        samples.extend(nts.into_iter().take(4).cloned());
        samples.extend(st.samples.iter().take(2).cloned());
        if samples.is_empty() {
            samples.push(json!("no sample recorded"));
        }
        let mut coverage = json!({
            "evaluations": st.evals,
            "generated_cases": st.cases,
            "distinct_nontrivial": st.nontrivial.len(),
            "rule": self.rule,
            "samples": samples,
            "classes": st.classes,
            "not_evaluated": st.notes,
            "exhaustive": self.outcome.exhaustive,
        });
        for (k, v) in &self.extra {
            coverage[k] = v.clone();
        }
        let ev = json!({
            "property_id": self.id,
            "tier": self.tier,
            "seed": self.seed,
            "level": self.level,
            "coverage": coverage,
            "assumptions": self.assumptions,
            "wall_s": self.started.elapsed().as_secs_f64(),
            "violations": violations,
        });
        let _ = std::fs::create_dir_all(format!("{}/evidence", crate::paths::verif_root()));
        let path = format!("{}/evidence/{}.json", crate::paths::verif_root(), self.id);
        if let Err(e) = std::fs::write(&path, serde_json::to_string_pretty(&ev).unwrap()) {
            println!("MACHINERY-ERROR property={} cannot write evidence: {}", self.id, e);
            return 2;
        }
        for l in &lines {
            println!("{}", l);
        }
        println!(
            "[{}] tier={} seed={} evaluations={} distinct_nontrivial={} violations={} wall={:.1}s",
            self.id,
            self.tier,
            self.seed,
            st.evals,
            st.nontrivial.len(),
            violations,
            self.started.elapsed().as_secs_f64()
        );
        if violations > 0 {
            1
        } else if machinery > 0 {
            2
        } else {
            0
        }
    }
}

/// Corpus / replay file: returns the choice bytes.
pub fn load_case_bytes(path: &str) -> Option<Vec<u8>> {
    let s = std::fs::read_to_string(path).ok()?;
    let v: Value = serde_json::from_str(&s).ok()?;
    hex::decode(v["choice_bytes"].as_str()?).ok()
}

/// Replays every committed corpus case of a sub-check.
pub fn replay_corpus(id: &str, sub: &str, f: &CaseFn) -> Outcome {
    let mut out = Outcome::default();
    let dir = format!("{}/corpus/{}", crate::paths::verif_root(), id);
    let Ok(rd) = std::fs::read_dir(&dir) else { return out };
    let mut paths: Vec<_> = rd.filter_map(|e| e.ok()).map(|e| e.path()).collect();
    paths.sort();
    for p in paths {
        let ps = p.to_string_lossy().to_string();
        let Ok(s) = std::fs::read_to_string(&p) else { continue };
        let Ok(v) = serde_json::from_str::<Value>(&s) else { continue };
        if v["sub_check"].as_str() != Some(sub) {
            continue;
        }
        let Some(bytes) = v["choice_bytes"].as_str().and_then(|h| hex::decode(h).ok()) else { continue };
        out.stats.eval();
        out.stats.class("corpus-replay");
        if let Err(fl) = f(&bytes, &mut out.stats) {
            let mut fl = fl;
            fl.msg = format!("{} (corpus {})", fl.msg, ps);
            out.found.push(Found { failure: fl, bytes: Some(bytes), sub: sub.to_string() });
        }
    }
    out
}
