//! Circuit programs: data describing a sequence of constraint-system API calls, interpreted
//! identically on the real prover, the real verifier and the independent model.
use crate::choices::Choices;
use crate::curves::Curve;
use crate::scalars::ScalarSpec;
use serde_json::{json, Value};

pub const TLABELS: [&[u8]; 4] = [b"verif-T0", b"verif-T1", b"R1CSExampleGadget", b""];
pub const ULABELS: [&[u8]; 7] = [
    b"ud0",
    b"ud1",
    b"app-data",
    b"ctx",
    // long labels that agree on their first 64 bytes
    b"application/verif/long-label/0123456789abcdef0123456789abcdef/0123456789/alpha",
    b"application/verif/long-label/0123456789abcdef0123456789abcdef/0123456789/beta",
    // labels that differ only in trailing NUL bytes
    b"ctx\0",
];
pub const CLABELS: [&[u8]; 8] = [
    b"c0",
    b"c1",
    b"shuffle challenge",
    // long labels that agree on their first 64 bytes
    b"gadget/verif/long-challenge-label/0123456789abcdef0123456789abcdef/01234/alpha",
    b"gadget/verif/long-challenge-label/0123456789abcdef0123456789abcdef/01234/beta",
    // labels that differ only in trailing NUL bytes, and the empty label
    b"c0\0",
    b"",
    b"\0\0",
];

#[derive(Clone, Copy, Debug, PartialEq, Eq, Hash, PartialOrd, Ord)]
pub enum Var {
    Com(usize),
    L(usize),
    R(usize),
    O(usize),
    One,
}

/// A scalar that may depend on a second-phase challenge register.
#[derive(Clone, Debug, PartialEq, Eq, Hash)]
pub enum Sc {
    C(ScalarSpec),
    /// spec * reg[i]
    MulReg(ScalarSpec, usize),
    /// spec + reg[i]
    AddReg(ScalarSpec, usize),
    /// product of the listed constants (the empty product is one)
    Prod(Vec<ScalarSpec>),
}

pub type Lc = Vec<(Var, Sc)>;

#[derive(Clone, Debug, PartialEq, Eq, Hash)]
pub enum Op {
    /// prover.commit(v, blind) / verifier.commit(V)
    Commit { v: ScalarSpec, blind: ScalarSpec },
    /// cs.allocate(Some(val))
    Alloc { val: Sc },
    /// cs.allocate_multiplier(Some((l, r)))
    AllocMul { l: Sc, r: Sc },
    /// cs.multiply(left, right)
    Mul { left: Lc, right: Lc },
    /// cs.constrain(lc - eval(base.unwrap_or(lc)) + err)
    Constrain {
        lc: Lc,
        err: Option<ScalarSpec>,
        /// when set, the constant is taken from this expression instead of `lc`
        /// (used for verifier-side coefficient deviations)
        base: Option<Lc>,
    },
    /// cs.transcript().append_message(ULABELS[label], bytes)
    TData { label: u8, bytes: Vec<u8> },
    /// (hook) add (dl, dr, do) to the assignment of an existing gate
    Tamper { gate: usize, dl: ScalarSpec, dr: ScalarSpec, dout: ScalarSpec },
    /// second phase only: push cs.challenge_scalar(CLABELS[label]) on the register file
    Challenge { label: u8 },
    /// first phase only: cs.specify_randomized_constraints(closure executing these ops)
    Closure(Vec<Op>),
}

#[derive(Clone, Copy, Debug, PartialEq, Eq, Hash)]
pub enum Cap {
    /// exactly the padded gate count (the threshold)
    Exact,
    /// threshold + k
    Plus(usize),
    /// 2 * threshold
    Double,
    /// 256
    Big,
}

impl Cap {
    pub fn resolve(self, need: usize) -> usize {
        match self {
            Cap::Exact => need,
            Cap::Plus(k) => need + k,
            Cap::Double => 2 * need,
            Cap::Big => 256.max(need),
        }
    }
    pub fn gen(ch: &mut Choices) -> Cap {
        match ch.weighted(&[40, 20, 10, 30]) {
            0 => Cap::Exact,
            1 => Cap::Plus(1 + ch.below(5)),
            2 => Cap::Double,
            _ => Cap::Big,
        }
    }
}

#[derive(Clone, Debug, PartialEq, Eq, Hash)]
pub struct Program {
    pub curve: Curve,
    pub tlabel: u8,
    /// application data appended to the transcript before the constraint system is created
    pub pre: Vec<(u8, Vec<u8>)>,
    pub ops: Vec<Op>,
    /// transcript handed over by value (true) or as `&mut` (false)
    pub owned: bool,
    pub cap_p: Cap,
    pub cap_v: Cap,
    pub party_cap: u8,
    /// seed of the prover's external RNG
    pub seed: u64,
    /// Pedersen bases shared by prover and verifier: 0 default, 1 random pair, 2 swapped
    /// default pair, 3 value base = 2·generator
    pub pc: u8,
    /// how the generator objects were obtained: 0 `new(cap)`, 1 `new(small)` then
    /// `increase_capacity(cap)`, 2 serialised and deserialised, 3 grown in several steps
    pub gens: u8,
}

#[derive(Clone, Debug, Default, PartialEq, Eq, Hash)]
pub struct Shape {
    pub n1: usize,
    pub n2: usize,
    pub m: usize,
    pub closures: usize,
    /// explicit constrain calls + 2 per multiply, per phase
    pub cons1: usize,
    pub cons2: usize,
    pub half_open_end1: bool,
    pub half_open_end2: bool,
    pub commit_after_constrain: bool,
    pub tdata: usize,
    pub challenges: usize,
    pub alloc_single: usize,
    pub tamper: usize,
    pub errs: usize,
    /// constraints that mention a variable before it exists
    pub forward: usize,
}

impl Shape {
    pub fn n(&self) -> usize {
        self.n1 + self.n2
    }
    pub fn padded(&self) -> usize {
        self.n().next_power_of_two().max(1)
    }
    pub fn k(&self) -> usize {
        self.padded().trailing_zeros() as usize
    }
    pub fn of(ops: &[Op]) -> Shape {
        let mut s = Shape::default();
        let mut pending = false;
        let mut seen_constrain = false;
        let mut bodies: Vec<&Vec<Op>> = vec![];
        for op in ops {
            match op {
                Op::Commit { .. } => {
                    s.m += 1;
                    if seen_constrain {
                        s.commit_after_constrain = true;
                    }
                }
                Op::Alloc { .. } => {
                    s.alloc_single += 1;
                    if !pending {
                        s.n1 += 1;
                    }
                    pending = !pending;
                }
                Op::AllocMul { .. } => s.n1 += 1,
                Op::Mul { .. } => {
                    s.n1 += 1;
                    s.cons1 += 2;
                    seen_constrain = true;
                }
                Op::Constrain { err, .. } => {
                    s.cons1 += 1;
                    seen_constrain = true;
                    if is_forward(op) {
                        s.forward += 1;
                    }
                    if err.is_some() {
                        s.errs += 1;
                    }
                }
                Op::TData { .. } => s.tdata += 1,
                Op::Tamper { .. } => s.tamper += 1,
                Op::Challenge { .. } => {}
                Op::Closure(b) => {
                    s.closures += 1;
                    bodies.push(b);
                }
            }
        }
        s.half_open_end1 = pending;
        let mut pending = false;
        for b in bodies {
            for op in b {
                match op {
                    Op::Alloc { .. } => {
                        s.alloc_single += 1;
                        if !pending {
                            s.n2 += 1;
                        }
                        pending = !pending;
                    }
                    Op::AllocMul { .. } => s.n2 += 1,
                    Op::Mul { .. } => {
                        s.n2 += 1;
                        s.cons2 += 2;
                    }
                    Op::Constrain { err, .. } => {
                        s.cons2 += 1;
                        if is_forward(op) {
                            s.forward += 1;
                        }
                        if err.is_some() {
                            s.errs += 1;
                        }
                    }
                    Op::TData { .. } => s.tdata += 1,
                    Op::Tamper { .. } => s.tamper += 1,
                    Op::Challenge { .. } => s.challenges += 1,
                    Op::Commit { .. } | Op::Closure(_) => {}
                }
            }
        }
        s.half_open_end2 = pending;
        s
    }
    /// labels of the steered shape classes this program belongs to
    pub fn classes(&self) -> Vec<&'static str> {
        let mut v = vec![];
        let n = self.n();
        if n == 0 {
            v.push("zero-gates");
        } else if n == 1 {
            v.push("one-gate");
        } else if n.is_power_of_two() {
            v.push("pow2-gates");
        } else if (n - 1).is_power_of_two() {
            v.push("pow2+1-gates");
        } else if (n + 1).is_power_of_two() {
            v.push("pow2-1-gates");
        } else {
            v.push("other-gates");
        }
        if self.n1 > 0 && self.n2 > 0 {
            v.push("both-phases");
        }
        if self.n1 == 0 && self.n2 > 0 {
            v.push("phase2-only");
        }
        if self.closures > 0 && self.n2 == 0 {
            v.push("closure-no-gates");
        }
        if self.closures == 0 {
            v.push("one-phase");
        }
        if self.half_open_end1 {
            v.push("half-open-end1");
        }
        if self.half_open_end2 {
            v.push("half-open-end2");
        }
        if self.commit_after_constrain {
            v.push("commit-after-constrain");
        }
        if self.m == 0 {
            v.push("no-commitments");
        }
        if self.tdata > 0 {
            v.push("user-data");
        }
        if self.alloc_single > 0 {
            v.push("single-alloc");
        }
        if self.forward > 0 {
            v.push("forward-reference");
        }
        v
    }
}

// ---------------------------------------------------------------------------------------
// generation

#[derive(Clone, Debug)]
pub struct GenCfg {
    pub max_ops1: usize,
    pub max_closures: usize,
    pub max_ops2: usize,
    pub max_commits: usize,
    /// target for the size-biased tail (0 = off): extra AllocMul/Mul ops up to this many gates
    pub big_gates: usize,
    /// maximum number of terms of a generated linear combination
    pub max_terms: usize,
    /// wide programs: hundreds of constraints / commitments (few gates)
    pub wide: bool,
}

impl GenCfg {
    pub fn small() -> GenCfg {
        GenCfg { max_ops1: 14, max_closures: 3, max_ops2: 8, max_commits: 4, big_gates: 0, max_terms: 4, wide: false }
    }
}

#[derive(Clone, Copy, Debug, PartialEq)]
enum Kind {
    Commit,
    Alloc,
    AllocMul,
    Mul,
    Constrain,
    TData,
    Challenge,
    Closure(usize),
}

struct GateState {
    half: bool,
    closed: bool,
    will_close: bool,
}

struct Fill {
    ncom: usize,
    gates: Vec<GateState>,
    pending: Option<usize>,
    will_close: Vec<bool>,
    regs: usize,
    phase2: bool,
    last_commit: Option<(ScalarSpec, ScalarSpec)>,
    last_constrain: Option<Lc>,
}

impl Fill {
    fn avail_vars(&self, allow_hidden: bool) -> Vec<Var> {
        let mut v = vec![];
        for j in 0..self.ncom {
            v.push(Var::Com(j));
        }
        for (i, g) in self.gates.iter().enumerate() {
            v.push(Var::L(i));
            let final_ro = !g.half || g.closed || !g.will_close;
            let hidden = g.half && !g.closed; // never returned by the API (yet)
            if final_ro && (!hidden || allow_hidden) {
                v.push(Var::R(i));
                // the output wire of an `allocate` pair is never returned by the API
                if !g.half || allow_hidden {
                    v.push(Var::O(i));
                }
            }
        }
        v
    }
    fn new_gate(&mut self, half: bool) -> usize {
        let id = self.gates.len();
        let wc = self.will_close.get(id).copied().unwrap_or(false);
        self.gates.push(GateState { half, closed: false, will_close: wc });
        id
    }
}

fn gen_sc(ch: &mut Choices, f: &Fill, nonzero: bool) -> Sc {
    let spec = if nonzero { ScalarSpec::gen_nonzero(ch) } else { ScalarSpec::gen(ch) };
    if f.phase2 && f.regs > 0 && ch.chance(110) {
        let r = ch.below(f.regs);
        if ch.chance(128) {
            Sc::MulReg(if spec.is_zero_spec() { ScalarSpec::One } else { spec }, r)
        } else {
            Sc::AddReg(spec, r)
        }
    } else {
        Sc::C(spec)
    }
}

fn gen_lc(ch: &mut Choices, f: &Fill, max_terms: usize) -> Lc {
    let allow_hidden = ch.chance(20);
    let vars = f.avail_vars(allow_hidden);
    let nt = ch.below(max_terms + 1);
    let mut lc = vec![];
    for _ in 0..nt {
        let var = if vars.is_empty() || ch.chance(24) {
            Var::One
        } else {
            // bias towards recent variables
            let idx = if ch.chance(128) {
                vars.len() - 1 - ch.below(vars.len().min(6))
            } else {
                ch.below(vars.len())
            };
            vars[idx]
        };
        let coeff = if ch.chance(14) { Sc::C(ScalarSpec::Zero) } else { gen_sc(ch, f, true) };
        lc.push((var, coeff));
    }
    lc
}

fn gen_kinds(ch: &mut Choices, n: usize, profile: usize, phase2: bool, commits_left: &mut usize) -> Vec<Kind> {
    // weights: Commit, Alloc, AllocMul, Mul, Constrain, TData, Challenge
    let w: [u32; 7] = match (profile, phase2) {
        (1, _) => [if phase2 { 0 } else { 30 }, 0, 0, 0, 50, 10, if phase2 { 20 } else { 0 }],
        (2, false) => [35, 0, 0, 0, 45, 20, 0],
        (3, false) => [15, 45, 8, 8, 20, 4, 0],
        (3, true) => [0, 45, 8, 8, 20, 4, 15],
        (_, false) => [18, 14, 16, 16, 30, 6, 0],
        (_, true) => [0, 14, 16, 18, 28, 6, 18],
    };
    let mut v = vec![];
    for _ in 0..n {
        let mut k = match ch.weighted(&w) {
            0 => Kind::Commit,
            1 => Kind::Alloc,
            2 => Kind::AllocMul,
            3 => Kind::Mul,
            4 => Kind::Constrain,
            5 => Kind::TData,
            _ => Kind::Challenge,
        };
        if k == Kind::Commit {
            if *commits_left == 0 {
                k = Kind::Constrain;
            } else {
                *commits_left -= 1;
            }
        }
        v.push(k);
    }
    v
}

/// mostly constraints, some commitments, a few gates
fn gen_kinds_wide(ch: &mut Choices, n: usize, commits_left: &mut usize) -> Vec<Kind> {
    let mut v = vec![];
    for _ in 0..n {
        let mut k = match ch.weighted(&[22, 2, 3, 3, 68, 2]) {
            0 => Kind::Commit,
            1 => Kind::Alloc,
            2 => Kind::AllocMul,
            3 => Kind::Mul,
            4 => Kind::Constrain,
            _ => Kind::TData,
        };
        if k == Kind::Commit {
            if *commits_left == 0 {
                k = Kind::Constrain;
            } else {
                *commits_left -= 1;
            }
        }
        v.push(k);
    }
    v
}

fn count_gates(kinds: &[Kind]) -> usize {
    let mut n = 0;
    let mut pending = false;
    for k in kinds {
        match k {
            Kind::Alloc => {
                if !pending {
                    n += 1;
                }
                pending = !pending;
            }
            Kind::AllocMul | Kind::Mul => n += 1,
            _ => {}
        }
    }
    n
}

/// Generate a satisfiable-by-construction program (every `err` is `None`, no tampering).
pub fn gen_program(ch: &mut Choices, curve: Curve, cfg: &GenCfg) -> Program {
    let tlabel = ch.below(TLABELS.len()) as u8;
    let owned = ch.chance(96);
    let cap_p = Cap::gen(ch);
    let cap_v = Cap::gen(ch);
    let party_cap = 1 + ch.weighted(&[70, 20, 10]) as u8;
    let seed = ch.u16() as u64;
    let pc = ch.weighted(&[70, 16, 7, 7]) as u8;
    let gens = ch.weighted(&[55, 20, 12, 13]) as u8;
    let npre = ch.weighted(&[60, 30, 10]);
    let pre: Vec<(u8, Vec<u8>)> = (0..npre)
        .map(|_| {
            let l = ch.below(ULABELS.len()) as u8;
            let n = ch.below(6);
            (l, ch.bytes(n))
        })
        .collect();

    // profile: 0 generic, 1 no gates, 2 gates only in phase 2, 3 allocate-heavy,
    // 4 exact power of two, 5 power of two plus one
    let profile = ch.weighted(&[46, 8, 10, 14, 12, 10]);
    let mut commits_left = cfg.max_commits;
    let n_ops1 = if cfg.wide { 200 + ch.below(cfg.max_ops1.max(201) - 200) } else { ch.below(cfg.max_ops1 + 1) };
    let mut k1 = if cfg.wide { gen_kinds_wide(ch, n_ops1, &mut commits_left) } else { gen_kinds(ch, n_ops1, profile, false, &mut commits_left) };
    let n_closures = match profile {
        2 => 1 + ch.below(cfg.max_closures.max(1)),
        _ => {
            let c = ch.weighted(&[45, 30, 15, 10]);
            if c == 3 && cfg.max_closures > 3 { 3 + ch.below(cfg.max_closures - 2) } else { c.min(cfg.max_closures) }
        }
    };
    let mut bodies: Vec<Vec<Kind>> = (0..n_closures)
        .map(|_| {
            let n = ch.below(cfg.max_ops2 + 1);
            let prof2 = if profile == 2 { 0 } else { profile };
            gen_kinds(ch, n, prof2, true, &mut 0)
        })
        .collect();
    // steer total gate count for profiles 4, 5 (and the size-biased tail)
    if profile == 4 || profile == 5 || cfg.big_gates > 0 {
        let have = count_gates(&k1) + bodies.iter().map(|b| count_gates(b)).sum::<usize>();
        let target = if cfg.big_gates > 0 && ch.chance(200) {
            let t = 1usize << ch.range(3, (cfg.big_gates.next_power_of_two().trailing_zeros()) as usize);
            match ch.below(3) {
                0 => t,
                1 => t + 1,
                _ => t - 1,
            }
            .min(cfg.big_gates)
        } else if profile == 4 || profile == 5 {
            let p = have.next_power_of_two().max(1);
            if profile == 5 {
                p + 1
            } else {
                p
            }
        } else {
            have
        };
        // an odd run of `allocate` makes the count ambiguous; close it first
        let mut extra = target.saturating_sub(have);
        while extra > 0 {
            let kind = if ch.chance(128) { Kind::AllocMul } else { Kind::Mul };
            if !bodies.is_empty() && ch.chance(100) {
                let b = ch.below(bodies.len());
                bodies[b].push(kind);
            } else {
                k1.push(kind);
            }
            extra -= 1;
        }
    }
    // closure registrations at arbitrary positions of the first phase
    for i in 0..bodies.len() {
        let pos = ch.below(k1.len() + 1);
        k1.insert(pos, Kind::Closure(i));
    }

    // look-ahead: which half-gates get closed later in their phase
    let mut will_close: Vec<bool> = vec![];
    {
        let sim = |kinds: &[Kind], will_close: &mut Vec<bool>| {
            let mut pending: Option<usize> = None;
            for k in kinds {
                match k {
                    Kind::Alloc => match pending {
                        None => {
                            pending = Some(will_close.len());
                            will_close.push(false);
                        }
                        Some(g) => {
                            will_close[g] = true;
                            pending = None;
                        }
                    },
                    Kind::AllocMul | Kind::Mul => will_close.push(false),
                    _ => {}
                }
            }
        };
        sim(&k1, &mut will_close);
        // closures execute in registration order, sharing one pending slot
        let order: Vec<usize> = k1
            .iter()
            .filter_map(|k| if let Kind::Closure(i) = k { Some(*i) } else { None })
            .collect();
        let flat: Vec<Kind> = order.iter().flat_map(|i| bodies[*i].iter().copied()).collect();
        sim(&flat, &mut will_close);
    }

    let mut f = Fill { ncom: 0, gates: vec![], pending: None, will_close, regs: 0, phase2: false, last_commit: None, last_constrain: None };
    let fill_op = |ch: &mut Choices, f: &mut Fill, k: Kind| -> Op {
        match k {
            Kind::Commit => {
                f.ncom += 1;
                let (mut v, mut blind) = (ScalarSpec::gen(ch), ScalarSpec::gen(ch));
                // now and then a commitment equal or opposite to the previous one (equal and
                // inverse points among the verifier's bases)
                if let Some((pv, pb)) = f.last_commit.clone() {
                    let neg = |s: &ScalarSpec| -> Option<ScalarSpec> {
                        Some(match s {
                            ScalarSpec::Zero => ScalarSpec::Zero,
                            ScalarSpec::One => ScalarSpec::MinusOne,
                            ScalarSpec::MinusOne => ScalarSpec::One,
                            ScalarSpec::Small(k) => ScalarSpec::NegSmall(*k),
                            ScalarSpec::NegSmall(k) => ScalarSpec::Small(*k),
                            _ => return None,
                        })
                    };
                    match ch.weighted(&[236, 12, 8]) {
                        1 => {
                            v = pv;
                            blind = pb;
                        }
                        2 => {
                            if let (Some(nv), Some(nb)) = (neg(&pv), neg(&pb)) {
                                v = nv;
                                blind = nb;
                            }
                        }
                        _ => {}
                    }
                }
                f.last_commit = Some((v.clone(), blind.clone()));
                Op::Commit { v, blind }
            }
            Kind::Alloc => {
                let val = gen_sc(ch, f, false);
                match f.pending {
                    None => {
                        let g = f.new_gate(true);
                        f.pending = Some(g);
                    }
                    Some(g) => {
                        f.gates[g].closed = true;
                        f.pending = None;
                    }
                }
                Op::Alloc { val }
            }
            Kind::AllocMul => {
                let l = gen_sc(ch, f, false);
                let r = gen_sc(ch, f, false);
                f.new_gate(false);
                Op::AllocMul { l, r }
            }
            Kind::Mul => {
                let left = gen_lc(ch, f, cfg.max_terms.saturating_sub(1).max(1));
                let mut right = gen_lc(ch, f, cfg.max_terms.saturating_sub(1).max(1));
                // now and then the two operands are related: the same expression (a square), or the
                // same variables in the same order with other coefficients
                match ch.weighted(&[196, 34, 26]) {
                    1 => right = left.clone(),
                    2 => right = left.iter().map(|(v, _)| (*v, gen_sc(ch, f, true))).collect(),
                    _ => {}
                }
                f.new_gate(false);
                Op::Mul { left, right }
            }
            Kind::Constrain => {
                let mut lc = gen_lc(ch, f, cfg.max_terms);
                // now and then the previous constraint is restated: word for word, or over the same
                // variables with other coefficients
                if let Some(prev) = f.last_constrain.clone() {
                    match ch.weighted(&[226, 10, 10, 10]) {
                        1 => lc = prev,
                        2 => lc = prev.iter().map(|(v, _)| (*v, gen_sc(ch, f, true))).collect(),
                        3 => {
                            // the previous row with further terms after it
                            let mut ext = prev;
                            ext.extend(lc);
                            lc = ext;
                        }
                        _ => {}
                    }
                }
                f.last_constrain = Some(lc.clone());
                Op::Constrain { lc, err: None, base: None }
            }
            Kind::TData => {
                let l = ch.below(ULABELS.len()) as u8;
                let n = ch.below(9);
                Op::TData { label: l, bytes: ch.bytes(n) }
            }
            Kind::Challenge => {
                f.regs += 1;
                Op::Challenge { label: ch.below(CLABELS.len()) as u8 }
            }
            Kind::Closure(_) => unreachable!(),
        }
    };
    // phase 1 (closure bodies are filled afterwards, in execution order)
    let mut ops: Vec<Op> = vec![];
    let mut closure_slots: Vec<(usize, usize)> = vec![]; // (position in ops, body index)
    for k in &k1 {
        match k {
            Kind::Closure(i) => {
                closure_slots.push((ops.len(), *i));
                ops.push(Op::Closure(vec![]));
            }
            k => ops.push(fill_op(ch, &mut f, *k)),
        }
    }
    f.pending = None;
    f.phase2 = true;
    for (pos, bi) in closure_slots {
        let body: Vec<Op> = bodies[bi].iter().map(|k| fill_op(ch, &mut f, *k)).collect();
        ops[pos] = Op::Closure(body);
    }
    let mut prog = Program { curve, tlabel, pre, ops, owned, cap_p, cap_v, party_cap, seed, pc, gens };
    // now and then the first phase ends on a gate whose wires are all zero (a full gate, or an
    // allocation left open), or a closure does
    // (a further first-phase gate renumbers the second-phase ones, which the generated expressions
    // name by index: only done when the closures hold no gates)
    match ch.weighted(&[236, 8, 6, 6]) {
        1 if prog.shape().n2 == 0 => prog.ops.push(Op::AllocMul { l: Sc::C(ScalarSpec::Zero), r: Sc::C(ScalarSpec::Zero) }),
        2 if prog.shape().n2 == 0 => {
            // only when no allocation is pending already (an odd number of single allocations so far)
            if !prog.shape().half_open_end1 {
                prog.ops.push(Op::Alloc { val: Sc::C(ScalarSpec::Zero) });
            }
        }
        3 => {
            if let Some(Op::Closure(b)) = prog.ops.iter_mut().rev().find(|o| matches!(o, Op::Closure(_))) {
                b.push(Op::AllocMul { l: Sc::C(ScalarSpec::Zero), r: Sc::C(ScalarSpec::Zero) });
            }
        }
        _ => {}
    }
    // constraints spelled before their variables exist (drawn last: earlier choices keep their meaning)
    if ch.chance(56) {
        let k = 1 + ch.below(3);
        add_forward_refs(ch, &mut prog, k);
    }
    prog
}

// ---------------------------------------------------------------------------------------
// forward references: constraints spelled over hand-built variables that do not exist yet
// (the API flattens constraints only at prove / verify time, so this is legitimate use)

/// A variable whose final value is known from the program text alone (the product of `val`),
/// with the place where its gate / commitment comes to exist.
#[derive(Clone, Debug)]
pub struct StaticVar {
    pub var: Var,
    pub val: Vec<ScalarSpec>,
    /// None: created by a top-level op; Some(i): created in the body of the closure at ops[i]
    pub list: Option<usize>,
    pub pos: usize,
}

fn static_of(s: &Sc) -> Option<ScalarSpec> {
    match s {
        Sc::C(c) => Some(c.clone()),
        _ => None,
    }
}

pub fn static_vars(prog: &Program) -> Vec<StaticVar> {
    let mut out = vec![];
    let mut gates = 0usize;
    let mut ncom = 0usize;
    let mut tampered: Vec<usize> = vec![];
    let mut scan_t = |ops: &Vec<Op>| {
        for op in ops {
            if let Op::Tamper { gate, .. } = op {
                tampered.push(*gate);
            }
        }
    };
    scan_t(&prog.ops);
    for op in &prog.ops {
        if let Op::Closure(b) = op {
            scan_t(b);
        }
    }
    // (gate, left value, list, pos of the first allocate)
    let mut pending: Option<(usize, Option<ScalarSpec>, Option<usize>, usize)> = None;
    let mut walk = |ops: &Vec<Op>, list: Option<usize>, gates: &mut usize, ncom: &mut usize, pending: &mut Option<(usize, Option<ScalarSpec>, Option<usize>, usize)>, out: &mut Vec<StaticVar>| {
        for (pos, op) in ops.iter().enumerate() {
            match op {
                Op::Commit { v, .. } => {
                    out.push(StaticVar { var: Var::Com(*ncom), val: vec![v.clone()], list, pos });
                    *ncom += 1;
                }
                Op::Alloc { val } => match pending.take() {
                    None => {
                        let g = *gates;
                        *gates += 1;
                        let l = static_of(val);
                        if let Some(l) = &l {
                            out.push(StaticVar { var: Var::L(g), val: vec![l.clone()], list, pos });
                        }
                        *pending = Some((g, l, list, pos));
                    }
                    Some((g, l, l0, p0)) => {
                        if let Some(r) = static_of(val) {
                            out.push(StaticVar { var: Var::R(g), val: vec![r.clone()], list: l0, pos: p0 });
                            if let Some(l) = l {
                                out.push(StaticVar { var: Var::O(g), val: vec![l, r], list: l0, pos: p0 });
                            }
                        }
                    }
                },
                Op::AllocMul { l, r } => {
                    let g = *gates;
                    *gates += 1;
                    let (ls, rs) = (static_of(l), static_of(r));
                    if let Some(l) = &ls {
                        out.push(StaticVar { var: Var::L(g), val: vec![l.clone()], list, pos });
                    }
                    if let Some(r) = &rs {
                        out.push(StaticVar { var: Var::R(g), val: vec![r.clone()], list, pos });
                    }
                    if let (Some(l), Some(r)) = (ls, rs) {
                        out.push(StaticVar { var: Var::O(g), val: vec![l, r], list, pos });
                    }
                }
                Op::Mul { .. } => *gates += 1,
                _ => {}
            }
        }
    };
    let close = |pending: &mut Option<(usize, Option<ScalarSpec>, Option<usize>, usize)>, out: &mut Vec<StaticVar>| {
        if let Some((g, _, l0, p0)) = pending.take() {
            // closed at the end of the phase with right wire and output zero
            out.push(StaticVar { var: Var::R(g), val: vec![ScalarSpec::Zero], list: l0, pos: p0 });
            out.push(StaticVar { var: Var::O(g), val: vec![ScalarSpec::Zero], list: l0, pos: p0 });
        }
    };
    walk(&prog.ops, None, &mut gates, &mut ncom, &mut pending, &mut out);
    close(&mut pending, &mut out);
    for (i, op) in prog.ops.iter().enumerate() {
        if let Op::Closure(b) = op {
            walk(b, Some(i), &mut gates, &mut ncom, &mut pending, &mut out);
        }
    }
    close(&mut pending, &mut out);
    out.retain(|s| match s.var {
        Var::L(g) | Var::R(g) | Var::O(g) => !tampered.contains(&g),
        _ => true,
    });
    out
}

/// execution-order key of a place: top-level ops first, then closure bodies in registration order
fn place_key(list: Option<usize>, pos: usize) -> (usize, usize) {
    match list {
        None => (0, pos),
        Some(i) => (1 + i, pos),
    }
}

/// insert `op` at a place strictly before every target comes to exist
fn insert_before(ch: &mut Choices, prog: &mut Program, targets: &[StaticVar], op: Op) {
    let first = targets.iter().map(|t| place_key(t.list, t.pos)).min().unwrap();
    let mut lists: Vec<Option<usize>> = vec![None];
    for (i, op) in prog.ops.iter().enumerate() {
        if matches!(op, Op::Closure(_)) && 1 + i <= first.0 {
            lists.push(Some(i));
        }
    }
    let list = lists[ch.below(lists.len())];
    let len = match list {
        None => prog.ops.len(),
        Some(i) => match &prog.ops[i] {
            Op::Closure(b) => b.len(),
            _ => unreachable!(),
        },
    };
    let hi = if place_key(list, 0).0 == first.0 { first.1 } else { len };
    let pos = ch.below(hi + 1);
    match list {
        None => prog.ops.insert(pos, op),
        Some(i) => match &mut prog.ops[i] {
            Op::Closure(b) => b.insert(pos, op),
            _ => unreachable!(),
        },
    }
}

/// A *violated* constraint without a constant term over two variables that do not exist yet:
/// v₂·X₁ − 2·v₁·X₂ with v₁·v₂ ≠ 0 (a commitment and a gate are appended when the program has no
/// two such variables). Returns false when nothing could be inserted.
pub fn add_forward_violation(ch: &mut Choices, prog: &mut Program) -> bool {
    let nonzero = |s: &StaticVar| s.val.iter().all(|v| !v.is_zero_spec());
    let mut sv: Vec<StaticVar> = static_vars(prog).into_iter().filter(|s| nonzero(s)).collect();
    if sv.len() < 2 || ch.chance(64) {
        let a = ScalarSpec::gen_nonzero(ch);
        let b = ScalarSpec::gen_nonzero(ch);
        prog.ops.push(Op::Commit { v: a, blind: ScalarSpec::gen(ch) });
        let last_closure = prog.ops.iter().rposition(|o| matches!(o, Op::Closure(_)));
        let gate = Op::AllocMul { l: Sc::C(b), r: Sc::C(ScalarSpec::gen(ch)) };
        match last_closure {
            Some(i) if ch.chance(160) => match &mut prog.ops[i] {
                Op::Closure(body) => body.push(gate),
                _ => unreachable!(),
            },
            _ => {
                if last_closure.is_some() && prog.shape().n2 > 0 {
                    // a new first-phase gate would renumber the second-phase ones
                    match &mut prog.ops[last_closure.unwrap()] {
                        Op::Closure(body) => body.push(gate),
                        _ => unreachable!(),
                    }
                } else {
                    prog.ops.push(gate)
                }
            }
        }
        let all = static_vars(prog);
        let m = prog.shape().m;
        let n = prog.shape().n();
        sv = all.into_iter().filter(|s| s.var == Var::Com(m - 1) || s.var == Var::L(n - 1)).collect();
        if sv.len() < 2 {
            return false;
        }
    }
    let i = ch.below(sv.len());
    let mut j = ch.below(sv.len() - 1);
    if j >= i {
        j += 1;
    }
    let (a, b) = (sv[i].clone(), sv[j].clone());
    if a.var == b.var {
        return false;
    }
    let mut nb = vec![ScalarSpec::NegSmall(2)];
    nb.extend(a.val.iter().cloned());
    let lc = vec![(a.var, Sc::Prod(b.val.clone())), (b.var, Sc::Prod(nb))];
    insert_before(ch, prog, &[a, b], Op::Constrain { lc, err: None, base: Some(vec![]) });
    true
}

/// A constraint that the witness misses "by one term": Σ cᵢ·Xᵢ − k' with k' the value of the
/// expression in which one term is sign-flipped, dropped or doubled. The row is violated by
/// (1 − f)·cⱼ·vⱼ ≠ 0, while an implementation whose expression arithmetic mistreats exactly that
/// term would see it satisfied. Returns the label of the variant.
pub fn add_near_miss(ch: &mut Choices, prog: &mut Program) -> Option<String> {
    let sv: Vec<StaticVar> = static_vars(prog).into_iter().filter(|s| s.val.iter().all(|v| !v.is_zero_spec())).collect();
    if sv.is_empty() {
        return None;
    }
    let nt = 1 + ch.below(3);
    let ts: Vec<(StaticVar, ScalarSpec)> = (0..nt).map(|_| (sv[ch.below(sv.len())].clone(), ScalarSpec::gen_nonzero(ch))).collect();
    let j = match ch.below(3) {
        0 => 0,
        1 => nt - 1,
        _ => ch.below(nt),
    };
    let (f, fname) = match ch.below(3) {
        0 => (Some(ScalarSpec::MinusOne), "sign-flipped"),
        1 => (None, "dropped"),
        _ => (Some(ScalarSpec::Small(2)), "doubled"),
    };
    let mut lc = vec![];
    let mut base = vec![];
    for (i, (t, c)) in ts.iter().enumerate() {
        lc.push((t.var, Sc::C(c.clone())));
        let mut p = vec![c.clone()];
        p.extend(t.val.iter().cloned());
        if i == j {
            match &f {
                Some(fs) => p.insert(0, fs.clone()),
                None => continue,
            }
        }
        base.push((Var::One, Sc::Prod(p)));
    }
    // anywhere: constraints are flattened at the end, so the place does not matter to the API
    let mut lists: Vec<Option<usize>> = vec![None];
    for (i, op) in prog.ops.iter().enumerate() {
        if matches!(op, Op::Closure(_)) {
            lists.push(Some(i));
        }
    }
    let list = lists[ch.below(lists.len())];
    let op = Op::Constrain { lc, err: None, base: Some(base) };
    match list {
        None => {
            let pos = ch.below(prog.ops.len() + 1);
            prog.ops.insert(pos, op)
        }
        Some(i) => match &mut prog.ops[i] {
            Op::Closure(b) => {
                let pos = ch.below(b.len() + 1);
                b.insert(pos, op)
            }
            _ => unreachable!(),
        },
    }
    Some(format!("{}:term-{}-of-{}", fname, j, nt))
}

/// Is this a forward-reference constraint added by `add_forward_refs`?
pub fn is_forward(op: &Op) -> bool {
    matches!(op, Op::Constrain { base: Some(b), lc, .. } if !lc.is_empty() && b.iter().all(|(v, c)| matches!(v, Var::One) && matches!(c, Sc::Prod(_))))
}

/// Insert up to `max` constraints that mention variables before they exist. Kinds:
/// general (Σ cᵢ·Xᵢ − Σ cᵢ·vᵢ, constant from the program text), homogeneous pair
/// (v₂·X₁ − v₁·X₂, no constant term) and homogeneous single (c·X for a variable that is zero).
/// All are satisfied by construction. Returns the number inserted.
pub fn add_forward_refs(ch: &mut Choices, prog: &mut Program, max: usize) -> usize {
    let mut done = 0;
    for _ in 0..max {
        let sv = static_vars(prog);
        if sv.is_empty() {
            break;
        }
        let pick = |ch: &mut Choices| sv[ch.below(sv.len())].clone();
        let kind = ch.weighted(&[45, 40, 15]);
        let (targets, lc, base): (Vec<StaticVar>, Lc, Lc) = match kind {
            0 => {
                let nt = 1 + ch.below(3);
                let ts: Vec<StaticVar> = (0..nt).map(|_| pick(ch)).collect();
                let mut lc = vec![];
                let mut base = vec![];
                for t in &ts {
                    let c = ScalarSpec::gen_nonzero(ch);
                    lc.push((t.var, Sc::C(c.clone())));
                    let mut p = vec![c];
                    p.extend(t.val.iter().cloned());
                    base.push((Var::One, Sc::Prod(p)));
                }
                (ts, lc, base)
            }
            1 => {
                let a = pick(ch);
                let b = pick(ch);
                let mut nb = vec![ScalarSpec::MinusOne];
                nb.extend(a.val.iter().cloned());
                let lc = vec![(a.var, Sc::Prod(b.val.clone())), (b.var, Sc::Prod(nb))];
                (vec![a, b], lc, vec![])
            }
            _ => {
                let zeros: Vec<&StaticVar> = sv.iter().filter(|s| s.val.iter().any(|v| v.is_zero_spec())).collect();
                if zeros.is_empty() {
                    continue;
                }
                let t = zeros[ch.below(zeros.len())].clone();
                let lc = vec![(t.var, Sc::C(ScalarSpec::gen_nonzero(ch)))];
                (vec![t], lc, vec![])
            }
        };
        insert_before(ch, prog, &targets, Op::Constrain { lc, err: None, base: Some(base) });
        done += 1;
    }
    done
}

// ---------------------------------------------------------------------------------------
// rendering

fn sc_json(s: &Sc) -> Value {
    match s {
        Sc::C(c) => json!(c.short()),
        Sc::MulReg(c, r) => json!(format!("{}*c{}", c.short(), r)),
        Sc::AddReg(c, r) => json!(format!("{}+c{}", c.short(), r)),
        Sc::Prod(v) => json!(v.iter().map(|c| c.short()).collect::<Vec<_>>().join("*")),
    }
}

fn var_str(v: &Var) -> String {
    match v {
        Var::Com(i) => format!("V{}", i),
        Var::L(i) => format!("L{}", i),
        Var::R(i) => format!("R{}", i),
        Var::O(i) => format!("O{}", i),
        Var::One => "1".into(),
    }
}

fn lc_json(lc: &Lc) -> Value {
    Value::Array(lc.iter().map(|(v, c)| json!([var_str(v), sc_json(c)])).collect())
}

pub fn op_json(op: &Op) -> Value {
    match op {
        Op::Commit { v, blind } => json!({"commit": [v.short(), blind.short()]}),
        Op::Alloc { val } => json!({"allocate": sc_json(val)}),
        Op::AllocMul { l, r } => json!({"allocate_multiplier": [sc_json(l), sc_json(r)]}),
        Op::Mul { left, right } => json!({"multiply": [lc_json(left), lc_json(right)]}),
        Op::Constrain { lc, err, base } => {
            let mut o = json!({"constrain": lc_json(lc)});
            if let Some(e) = err {
                o["err"] = json!(e.short());
            }
            if let Some(b) = base {
                o["const_from"] = lc_json(b);
            }
            o
        }
        Op::TData { label, bytes } => {
            json!({"tdata": [String::from_utf8_lossy(ULABELS[*label as usize]), hex::encode(bytes)]})
        }
        Op::Tamper { gate, dl, dr, dout } => {
            json!({"tamper_gate": gate, "d": [dl.short(), dr.short(), dout.short()]})
        }
        Op::Challenge { label } => json!({"challenge": String::from_utf8_lossy(CLABELS[*label as usize])}),
        Op::Closure(b) => json!({"randomized": b.iter().map(op_json).collect::<Vec<_>>()}),
    }
}

impl Program {
    pub fn shape(&self) -> Shape {
        Shape::of(&self.ops)
    }
    pub fn to_json(&self) -> Value {
        let s = self.shape();
        let gens_name = ["new", "increase_capacity", "serialization round-trip", "grown in steps"][self.gens as usize % 4];
        let bases_name = ["default", "random pair", "swapped", "value base = 2*generator"][self.pc as usize % 4];
        json!({
            "curve": self.curve.name(),
            "transcript_label": String::from_utf8_lossy(TLABELS[self.tlabel as usize]),
            "owned_transcript": self.owned,
            "pre_data": self.pre.iter().map(|(l, b)| json!([String::from_utf8_lossy(ULABELS[*l as usize]), hex::encode(b)])).collect::<Vec<_>>(),
            "cap_prover": format!("{:?}", self.cap_p),
            "cap_verifier": format!("{:?}", self.cap_v),
            "party_capacity": self.party_cap,
            "prover_seed": self.seed,
            "pedersen_bases": bases_name,
            "generator_objects": gens_name,
            "gates": [s.n1, s.n2],
            "ops": self.ops.iter().map(op_json).collect::<Vec<_>>(),
        })
    }
    /// structural fingerprint (shape + op kinds), used to count distinct cases
    pub fn fingerprint(&self) -> u64 {
        use std::hash::{Hash, Hasher};
        let mut h = std::collections::hash_map::DefaultHasher::new();
        self.hash(&mut h);
        h.finish()
    }
}
