//! The protocol's Fiat–Shamir schedule as data: the ordered transcript operations a verifier
//! (equivalently, an honest prover) performs for a given program, commitments and proof, with
//! labels and full payload encodings. Used as an independent Fiat–Shamir implementation
//! (own challenges for the reference verifier) and as the oracle of C06 / C18.
use crate::mirror::ProofMirror;
use crate::model::Model;
use crate::program::{Op, Program, CLABELS, TLABELS, ULABELS};
use ark_ec::AffineRepr;
use ark_ff::PrimeField;
use ark_serialize::CanonicalSerialize;
use merlin::Transcript;

#[derive(Clone, Debug, PartialEq, Eq)]
pub enum Item {
    /// `alt`: an alternative full encoding of the same element (compressed form of a point)
    Append { label: Vec<u8>, msg: Vec<u8>, alt: Option<Vec<u8>>, what: String, protocol: bool },
    Challenge { label: Vec<u8>, what: String, protocol: bool },
}

impl Item {
    pub fn what(&self) -> &str {
        match self {
            Item::Append { what, .. } | Item::Challenge { what, .. } => what,
        }
    }
    pub fn label(&self) -> &[u8] {
        match self {
            Item::Append { label, .. } | Item::Challenge { label, .. } => label,
        }
    }
}

pub fn enc_point<G: AffineRepr>(p: &G) -> Vec<u8> {
    let mut v = vec![];
    p.serialize_uncompressed(&mut v).unwrap();
    v
}
pub fn enc_point_compressed<G: AffineRepr>(p: &G) -> Vec<u8> {
    let mut v = vec![];
    p.serialize_compressed(&mut v).unwrap();
    v
}
pub fn enc_scalar<F: PrimeField>(s: &F) -> Vec<u8> {
    let mut v = vec![];
    s.serialize_uncompressed(&mut v).unwrap();
    v
}

fn app(label: &[u8], msg: Vec<u8>, what: &str, protocol: bool) -> Item {
    Item::Append { label: label.to_vec(), msg, alt: None, what: what.to_string(), protocol }
}
fn app_pt<G: AffineRepr>(label: &[u8], p: &G, what: &str) -> Item {
    Item::Append { label: label.to_vec(), msg: enc_point(p), alt: Some(enc_point_compressed(p)), what: what.to_string(), protocol: true }
}
fn chal(label: &[u8], what: &str, protocol: bool) -> Item {
    Item::Challenge { label: label.to_vec(), what: what.to_string(), protocol }
}

/// Items performed on the main transcript after `Transcript::new(label)` + pre-construction
/// data (those are part of the statement's context and listed first, marked non-protocol).
pub fn schedule<G: AffineRepr>(prog: &Program, commitments: &[G], m: &ProofMirror<G>) -> Vec<Item> {
    let mut it = vec![];
    for (l, b) in &prog.pre {
        it.push(app(ULABELS[*l as usize], b.clone(), "pre-construction user data", false));
    }
    it.push(app(b"dom-sep", b"r1cs v1".to_vec(), "domain separator r1cs v1", true));
    let mut ci = 0;
    let mut bodies: Vec<&Vec<Op>> = vec![];
    for op in &prog.ops {
        match op {
            Op::Commit { .. } => {
                let v = commitments.get(ci).copied().unwrap_or(G::zero());
                it.push(app_pt(b"V", &v, &format!("commitment V[{}]", ci)));
                ci += 1;
            }
            Op::TData { label, bytes } => it.push(app(ULABELS[*label as usize], bytes.clone(), "first-phase user data", false)),
            Op::Closure(b) => bodies.push(b),
            _ => {}
        }
    }
    it.push(app(b"m", (ci as u64).to_le_bytes().to_vec(), "commitment count m", true));
    it.push(app_pt(b"A_I1", &m.A_I1, "A_I1"));
    it.push(app_pt(b"A_O1", &m.A_O1, "A_O1"));
    it.push(app_pt(b"S1", &m.S1, "S1"));
    if bodies.is_empty() {
        it.push(app(b"dom-sep", b"r1cs-1phase".to_vec(), "domain separator 1phase", true));
    } else {
        it.push(app(b"dom-sep", b"r1cs-2phase".to_vec(), "domain separator 2phase", true));
    }
    for b in bodies {
        for op in b {
            match op {
                Op::Challenge { label } => it.push(chal(CLABELS[*label as usize], "randomized-phase challenge", false)),
                Op::TData { label, bytes } => it.push(app(ULABELS[*label as usize], bytes.clone(), "second-phase user data", false)),
                _ => {}
            }
        }
    }
    it.push(app_pt(b"A_I2", &m.A_I2, "A_I2"));
    it.push(app_pt(b"A_O2", &m.A_O2, "A_O2"));
    it.push(app_pt(b"S2", &m.S2, "S2"));
    it.push(chal(b"y", "challenge y", true));
    it.push(chal(b"z", "challenge z", true));
    it.push(app_pt(b"T_1", &m.T_1, "T_1"));
    it.push(app_pt(b"T_3", &m.T_3, "T_3"));
    it.push(app_pt(b"T_4", &m.T_4, "T_4"));
    it.push(app_pt(b"T_5", &m.T_5, "T_5"));
    it.push(app_pt(b"T_6", &m.T_6, "T_6"));
    it.push(chal(b"u", "challenge u", true));
    it.push(chal(b"x", "challenge x", true));
    it.push(app(b"t_x", enc_scalar(&m.t_x), "t_x", true));
    it.push(app(b"t_x_blinding", enc_scalar(&m.t_x_blinding), "t_x_blinding", true));
    it.push(app(b"e_blinding", enc_scalar(&m.e_blinding), "e_blinding", true));
    it.push(chal(b"w", "challenge w", true));
    let padded = prog.shape().padded();
    it.push(app(b"dom-sep", b"ipp v1".to_vec(), "domain separator ipp v1", true));
    it.push(app(b"n", (padded as u64).to_le_bytes().to_vec(), "ipp length n", true));
    let k = m.ipp.L.len().min(m.ipp.R.len());
    for j in 0..k {
        it.push(app_pt(b"L", &m.ipp.L[j], &format!("L[{}]", j)));
        it.push(app_pt(b"R", &m.ipp.R[j], &format!("R[{}]", j)));
        it.push(chal(b"u", &format!("ipp challenge u[{}]", j), true));
    }
    it
}

pub fn static_label(l: &[u8]) -> &'static [u8] {
    const KNOWN: [&[u8]; 24] = [
        b"dom-sep", b"V", b"m", b"A_I1", b"A_O1", b"S1", b"A_I2", b"A_O2", b"S2", b"y", b"z", b"T_1", b"T_3", b"T_4", b"T_5",
        b"T_6", b"u", b"x", b"t_x", b"t_x_blinding", b"e_blinding", b"w", b"n", b"L",
    ];
    for k in KNOWN.iter().chain([b"R".as_slice()].iter()).chain(ULABELS.iter()).chain(CLABELS.iter()).chain(TLABELS.iter()) {
        if *k == l {
            return k;
        }
    }
    Box::leak(l.to_vec().into_boxed_slice())
}

/// Execute the schedule on a fresh (real) Merlin transcript; returns every challenge output.
pub fn run<'a>(prog: &Program, items: &'a [Item]) -> Vec<(&'a Item, [u8; 32])> {
    let mut t = Transcript::new(TLABELS[prog.tlabel as usize]);
    let mut out = vec![];
    for it in items {
        match it {
            Item::Append { label, msg, .. } => t.append_message(static_label(label), msg),
            Item::Challenge { label, .. } => {
                let mut b = [0u8; 32];
                t.challenge_bytes(static_label(label), &mut b);
                out.push((it, b));
            }
        }
    }
    out
}

/// one op on the model alone; challenge ops take the next supplied register value
pub fn model_step<F: PrimeField>(m: &mut Model<F>, op: &Op, chals: &[F], next: &mut usize) {
    match op {
        Op::Commit { v, blind } => {
            m.commit(v.to_f(), blind.to_f());
        }
        Op::Alloc { val } => {
            let v = m.sc(val);
            m.alloc(v);
        }
        Op::AllocMul { l, r } => {
            let (a, b) = (m.sc(l), m.sc(r));
            m.alloc_mul(a, b);
        }
        Op::Mul { left, right } => {
            let (a, b) = (m.resolve(left), m.resolve(right));
            m.mul(a, b);
        }
        Op::Constrain { lc, err, base } => {
            let mut t = m.resolve(lc);
            let k = match base {
                Some(b) => m.eval_terms(&m.resolve(b)),
                None => m.eval_terms(&t),
            };
            let e: F = err.as_ref().map(|e| e.to_f()).unwrap_or(F::zero());
            t.push((crate::program::Var::One, e - k));
            m.constrain(t);
        }
        Op::Tamper { gate, dl, dr, dout } => {
            m.tamper(*gate, dl.to_f(), dr.to_f(), dout.to_f());
        }
        Op::Challenge { .. } => {
            m.regs.push(chals.get(*next).copied().unwrap_or(F::one()));
            *next += 1;
        }
        Op::TData { .. } | Op::Closure(_) => {}
    }
}

/// Interpret the program on the model alone; second-phase challenge registers are supplied.
pub fn model_run<F: PrimeField>(prog: &Program, closure_challenges: &[F]) -> Model<F> {
    let mut m = Model::new();
    let mut next = 0usize;
    for op in &prog.ops {
        if !matches!(op, Op::Closure(_)) {
            model_step(&mut m, op, closure_challenges, &mut next);
        }
    }
    m.enter_phase2();
    for op in &prog.ops {
        if let Op::Closure(b) = op {
            for o in b {
                model_step(&mut m, o, closure_challenges, &mut next);
            }
        }
    }
    m
}
