//! Fixtures recorded from the frozen reference revision (vendor/refrev = /repo@b4846a6).
use crate::curves::{Curve, CurveTag};
use crate::refgens::digest_points;
use crate::with_curve;
use ark_bulletproofs_ref as refrev;
use serde_json::{json, Value};

pub fn dir() -> String {
    format!("{}/fixtures", crate::paths::verif_root())
}
pub const GEN_PARTIES: usize = 4;
pub const GEN_COUNT: usize = 64;

fn ref_generators<G: CurveTag>() -> Value {
    let gens = refrev::BulletproofGens::<G::RefG>::new(GEN_COUNT, GEN_PARTIES);
    let pc = refrev::PedersenGens::<G::RefG>::default();
    let mut gd = vec![];
    let mut hd = vec![];
    // party j's generators = aggregated view of j+1 parties minus that of j parties
    let all_g: Vec<G::RefG> = gens.G(GEN_COUNT, GEN_PARTIES).cloned().collect();
    let all_h: Vec<G::RefG> = gens.H(GEN_COUNT, GEN_PARTIES).cloned().collect();
    for j in 0..GEN_PARTIES {
        gd.push(digest_points(&all_g[j * GEN_COUNT..(j + 1) * GEN_COUNT]));
        hd.push(digest_points(&all_h[j * GEN_COUNT..(j + 1) * GEN_COUNT]));
    }
    json!({
        "B": hex::encode(crate::refgens::enc(&pc.B)),
        "B_blinding": hex::encode(crate::refgens::enc(&pc.B_blinding)),
        "G_digest_per_party": gd,
        "H_digest_per_party": hd,
        "G_0_0": hex::encode(crate::refgens::enc(&all_g[0])),
        "H_0_0": hex::encode(crate::refgens::enc(&all_h[0])),
        "count": GEN_COUNT,
        "parties": GEN_PARTIES,
    })
}

pub fn record_generators() {
    let mut o = serde_json::Map::new();
    for c in Curve::ALL {
        let v = with_curve!(c, G => ref_generators::<G>());
        o.insert(c.name().to_string(), v);
    }
    std::fs::create_dir_all(dir()).unwrap();
    std::fs::write(format!("{}/generators.json", dir()), serde_json::to_string_pretty(&Value::Object(o)).unwrap()).unwrap();
}

pub fn load(name: &str) -> Option<Value> {
    serde_json::from_str(&std::fs::read_to_string(format!("{}/{}", dir(), name)).ok()?).ok()
}

// ---------------------------------------------------------------------------------------
// C18 proof fixtures

use crate::drive_ref::{ref_prove, ref_verify};
use crate::mirror::ProofMirror;
use crate::program::{Cap, Op, Program, Sc, Var};
use crate::scalars::ScalarSpec;
use merlin::instr::Event;

pub const FX_N1: [usize; 6] = [0, 1, 2, 3, 5, 8];
pub const FX_N2: [usize; 4] = [0, 1, 3, 6];
pub const FX_BIG: [(usize, usize); 9] = [(17, 0), (33, 0), (70, 0), (12, 9), (20, 40), (64, 64), (0, 17), (1, 31), (100, 5)];

/// The fixture statements. FROZEN: the recorded fixtures refer to these builders by index;
/// changing this function invalidates /verif/fixtures/proofs_*.json.
pub fn fx18_program(curve: Curve, idx: usize) -> Program {
    // indices 0..23: the small grid; 24..: larger shapes (added later, the first 24 are unchanged)
    let (n1, n2) = if idx < 24 { (FX_N1[idx % 6], FX_N2[(idx / 6) % 4]) } else { FX_BIG[(idx - 24) % FX_BIG.len()] };
    let m = idx % 4;
    let mut ops = vec![];
    for j in 0..m {
        ops.push(Op::Commit { v: ScalarSpec::Small(10 + j as u64 + idx as u64), blind: ScalarSpec::Rand(700 + (idx * 4 + j) as u64) });
    }
    if idx % 2 == 1 {
        ops.push(Op::TData { label: (idx % 4) as u8, bytes: vec![idx as u8, 1, 2] });
    }
    let mut made = 0;
    let mut i = 0u64;
    while made < n1 {
        i += 1;
        match (i + idx as u64) % 3 {
            0 => {
                ops.push(Op::Alloc { val: Sc::C(ScalarSpec::Small(i + 2)) });
                ops.push(Op::Alloc { val: Sc::C(ScalarSpec::Rand(i)) });
            }
            1 => ops.push(Op::AllocMul { l: Sc::C(ScalarSpec::NegSmall(i)), r: Sc::C(ScalarSpec::Pow2(70 + i as u32)) }),
            _ => {
                let left = if m > 0 { vec![(Var::Com(0), Sc::C(ScalarSpec::One)), (Var::One, Sc::C(ScalarSpec::Small(3)))] } else { vec![(Var::One, Sc::C(ScalarSpec::Small(4)))] };
                let right = if made > 0 { vec![(Var::L(made - 1), Sc::C(ScalarSpec::Small(2)))] } else { vec![(Var::One, Sc::C(ScalarSpec::MinusOne))] };
                ops.push(Op::Mul { left, right });
            }
        }
        made += 1;
    }
    if m > 0 {
        let mut lc: Vec<(Var, Sc)> = (0..m).map(|j| (Var::Com(j), Sc::C(ScalarSpec::Small(1 + j as u64)))).collect();
        if n1 > 0 {
            lc.push((Var::L(0), Sc::C(ScalarSpec::Half)));
        }
        ops.push(Op::Constrain { lc, err: None, base: None });
    }
    if n1 > 1 {
        ops.push(Op::Constrain { lc: vec![(Var::L(n1 - 1), Sc::C(ScalarSpec::One)), (Var::L(0), Sc::C(ScalarSpec::InvSmall(3)))], err: None, base: None });
    }
    ops.push(Op::Constrain { lc: vec![(Var::One, Sc::C(ScalarSpec::Small(5)))], err: None, base: None });
    if n2 > 0 || idx % 3 == 0 {
        let mut body = vec![];
        if n2 > 0 || idx % 2 == 0 {
            body.push(Op::Challenge { label: (idx % 3) as u8 });
        }
        if idx % 5 == 0 {
            body.push(Op::TData { label: 1, bytes: vec![9, idx as u8] });
        }
        for j in 0..n2 {
            if j % 2 == 0 {
                body.push(Op::AllocMul { l: Sc::MulReg(ScalarSpec::One, 0), r: Sc::C(ScalarSpec::Small(2 + j as u64)) });
            } else {
                body.push(Op::Mul { left: vec![(Var::L(n1 + j - 1), Sc::C(ScalarSpec::One))], right: vec![(Var::One, Sc::AddReg(ScalarSpec::Small(1), 0))] });
            }
        }
        if n2 > 0 {
            let mut lc = vec![(Var::O(n1), Sc::MulReg(ScalarSpec::Small(2), 0))];
            if m > 0 {
                lc.push((Var::Com(m - 1), Sc::AddReg(ScalarSpec::One, 0)));
            }
            body.push(Op::Constrain { lc, err: None, base: None });
        }
        ops.push(Op::Closure(body));
    }
    Program { curve, tlabel: (idx % 3) as u8, pre: if idx % 4 == 2 { vec![(0, vec![7, 7])] } else { vec![] }, ops, owned: false, cap_p: Cap::Exact, cap_v: Cap::Exact, party_cap: 1, seed: 1800 + idx as u64, pc: 0, gens: 0 }
}

pub const FX_COUNT: usize = 33;

/// the three recorded wrong statements (index 0..3); None if not applicable to this fixture
pub fn fx18_wrong(prog: &Program, commitments: &[Vec<u8>], which: usize, bump: &dyn Fn(&[u8]) -> Vec<u8>) -> Option<(Program, Vec<Vec<u8>>, &'static str)> {
    let mut p = prog.clone();
    let mut c = commitments.to_vec();
    match which {
        0 => {
            if c.is_empty() {
                return None;
            }
            c[0] = bump(&c[0]);
            Some((p, c, "commitment[0] + B"))
        }
        1 => {
            p.ops.push(Op::Constrain { lc: vec![], err: Some(ScalarSpec::One), base: None });
            Some((p, c, "violated constant constraint added"))
        }
        _ => {
            p.tlabel = (p.tlabel + 1) % 3;
            Some((p, c, "transcript label changed"))
        }
    }
}

/// normalised transcript log: main-transcript operations, then challenges drawn from forks
pub fn normalise_log(log: &[Event], main_id: u64) -> Vec<Value> {
    let mut v = vec![];
    for e in log {
        match e {
            Event::Append { id, label, msg } if *id == main_id => v.push(json!(["append", String::from_utf8_lossy(label), hex::encode(msg)])),
            Event::Challenge { id, label, out } if *id == main_id && label != b"verif-next" => v.push(json!(["challenge", String::from_utf8_lossy(label), hex::encode(out)])),
            Event::Challenge { id, label, out } if *id != main_id => v.push(json!(["fork-challenge", String::from_utf8_lossy(label), hex::encode(out)])),
            _ => {}
        }
    }
    v
}

fn bump_commitment<G: CurveTag>(b: &[u8]) -> Vec<u8> {
    use ark_ec::CurveGroup;
    use ark_serialize::CanonicalDeserialize;
    let p = <G as CanonicalDeserialize>::deserialize_compressed(b).expect("commitment decodes");
    crate::refgens::enc(&(p.into_group() + G::generator().into_group()).into_affine())
}

fn record_proofs<G: CurveTag>() -> Value {
    let mut out = vec![];
    for idx in 0..FX_COUNT {
        let prog = fx18_program(G::CURVE, idx);
        let need = prog.shape().padded();
        let (proof, coms) = ref_prove::<G>(&prog, need).expect("reference prover");
        let v = ref_verify::<G>(&prog, &coms, &proof, need, true);
        assert!(v.accepted, "reference verifier accepts its own proof (fixture {})", idx);
        let mut wrong = vec![];
        for w in 0..3 {
            if let Some((wp, wc, name)) = fx18_wrong(&prog, &coms, w, &|b| bump_commitment::<G>(b)) {
                let r = ref_verify::<G>(&wp, &wc, &proof, wp.shape().padded().max(need), false);
                if !r.accepted {
                    wrong.push(json!({"which": w, "what": name, "reference_verdict": r.verdict}));
                }
            }
        }
        let m = ProofMirror::<G>::from_bytes(&proof).expect("mirror decodes reference proof");
        let mut fields = serde_json::Map::new();
        for (i, n) in crate::mirror::POINT_NAMES.iter().enumerate() {
            fields.insert(n.to_string(), json!(hex::encode(crate::refgens::enc(&m.points()[i]))));
        }
        for (i, n) in crate::mirror::SCALAR_NAMES.iter().enumerate() {
            fields.insert(n.to_string(), json!(hex::encode(crate::drive_ref::enc(&m.scalars()[i]))));
        }
        fields.insert("L".into(), json!(m.ipp.L.iter().map(|p| hex::encode(crate::refgens::enc(p))).collect::<Vec<_>>()));
        fields.insert("R".into(), json!(m.ipp.R.iter().map(|p| hex::encode(crate::refgens::enc(p))).collect::<Vec<_>>()));
        out.push(json!({
            "index": idx,
            "statement": prog.to_json(),
            "commitments": coms.iter().map(hex::encode).collect::<Vec<_>>(),
            "proof": hex::encode(&proof),
            "fields": fields,
            "wrong_statements_rejected_by_reference": wrong,
            "verifier_transcript": normalise_log(&v.log, v.main_id),
        }));
    }
    Value::Array(out)
}

pub fn record_all() {
    record_generators();
    for c in Curve::ALL {
        let v = with_curve!(c, G => record_proofs::<G>());
        std::fs::write(format!("{}/proofs_{}.json", dir(), c.name()), serde_json::to_string(&v).unwrap()).unwrap();
    }
}
