//! Fixtures recorded from the frozen reference revision (vendor/refrev = /repo@b4846a6).
use crate::curves::{Curve, CurveTag};
use crate::refgens::digest_points;
use crate::with_curve;
use ark_bulletproofs_ref as refrev;
use serde_json::{json, Value};

pub const DIR: &str = "/verif/fixtures";
pub const GEN_PARTIES: usize = 4;
pub const GEN_COUNT: usize = 64;

fn ref_generators<G: CurveTag>() -> Value {
    let gens = refrev::BulletproofGens::<G::RefG>::new(GEN_COUNT, GEN_PARTIES);
    let pc = refrev::PedersenGens::<G::RefG>::default();
    let mut gd = vec![];
    let mut hd = vec![];
    // party j's generators = aggregated view of j+1 parties minus that of j parties
    let all_g: Vec<G::RefG> = gens.G(GEN_COUNT, GEN_PARTIES).cloned().collect();
    let all_h: Vec<G::RefG> = gens.H(GEN_COUNT, GEN_PARTIES).cloned().collect();
    for j in 0..GEN_PARTIES {
        gd.push(digest_points(&all_g[j * GEN_COUNT..(j + 1) * GEN_COUNT]));
        hd.push(digest_points(&all_h[j * GEN_COUNT..(j + 1) * GEN_COUNT]));
    }
    json!({
        "B": hex::encode(crate::refgens::enc(&pc.B)),
        "B_blinding": hex::encode(crate::refgens::enc(&pc.B_blinding)),
        "G_digest_per_party": gd,
        "H_digest_per_party": hd,
        "G_0_0": hex::encode(crate::refgens::enc(&all_g[0])),
        "H_0_0": hex::encode(crate::refgens::enc(&all_h[0])),
        "count": GEN_COUNT,
        "parties": GEN_PARTIES,
    })
}

pub fn record_generators() {
    let mut o = serde_json::Map::new();
    for c in Curve::ALL {
        let v = with_curve!(c, G => ref_generators::<G>());
        o.insert(c.name().to_string(), v);
    }
    std::fs::create_dir_all(DIR).unwrap();
    std::fs::write(format!("{}/generators.json", DIR), serde_json::to_string_pretty(&Value::Object(o)).unwrap()).unwrap();
}

pub fn load(name: &str) -> Option<Value> {
    serde_json::from_str(&std::fs::read_to_string(format!("{}/{}", DIR, name)).ok()?).ok()
}
