//! Points of a short-Weierstrass curve with a chosen y-coordinate: the roots of
//! x³ + a·x + (b − y²) over the base field, by gcd with x^q − x and equal-degree splitting.
//! Only used to *construct inputs* (boundary values of the y-dependent compression flag).
use ark_ff::{BigInteger, PrimeField};

type Poly<F> = Vec<F>; // little-endian coefficients, no trailing zeros

fn trim<F: PrimeField>(mut p: Poly<F>) -> Poly<F> {
    while p.last().map(|c| c.is_zero()).unwrap_or(false) {
        p.pop();
    }
    p
}

fn rem<F: PrimeField>(a: &Poly<F>, m: &Poly<F>) -> Poly<F> {
    let mut r = a.clone();
    let dm = m.len() - 1;
    let lead_inv = m[dm].inverse().unwrap();
    while r.len() > dm && !r.is_empty() {
        let k = r.len() - 1 - dm;
        let c = *r.last().unwrap() * lead_inv;
        for i in 0..=dm {
            r[k + i] -= c * m[i];
        }
        r = trim(r);
    }
    r
}

fn mulmod<F: PrimeField>(a: &Poly<F>, b: &Poly<F>, m: &Poly<F>) -> Poly<F> {
    if a.is_empty() || b.is_empty() {
        return vec![];
    }
    let mut p = vec![F::zero(); a.len() + b.len() - 1];
    for (i, x) in a.iter().enumerate() {
        for (j, y) in b.iter().enumerate() {
            p[i + j] += *x * y;
        }
    }
    rem(&trim(p), m)
}

fn powmod<F: PrimeField>(base: &Poly<F>, exp: &[u64], m: &Poly<F>) -> Poly<F> {
    let mut acc: Poly<F> = vec![F::one()];
    for limb in exp.iter().rev() {
        for bit in (0..64).rev() {
            acc = mulmod(&acc, &acc, m);
            if (limb >> bit) & 1 == 1 {
                acc = mulmod(&acc, base, m);
            }
        }
    }
    acc
}

fn gcd<F: PrimeField>(a: &Poly<F>, b: &Poly<F>) -> Poly<F> {
    let (mut x, mut y) = (a.clone(), b.clone());
    while !y.is_empty() {
        let r = rem(&x, &y);
        x = y;
        y = r;
    }
    if let Some(l) = x.last().copied() {
        let li = l.inverse().unwrap();
        for c in x.iter_mut() {
            *c *= li;
        }
    }
    x
}

fn sub<F: PrimeField>(a: &Poly<F>, b: &Poly<F>) -> Poly<F> {
    let mut r = vec![F::zero(); a.len().max(b.len())];
    for (i, c) in a.iter().enumerate() {
        r[i] += c;
    }
    for (i, c) in b.iter().enumerate() {
        r[i] -= c;
    }
    trim(r)
}

/// one root of x³ + a·x + c, if there is one
pub fn cubic_root<F: PrimeField>(a: F, c: F) -> Option<F> {
    let f: Poly<F> = vec![c, a, F::zero(), F::one()];
    let q: Vec<u64> = F::MODULUS.as_ref().to_vec();
    let x: Poly<F> = vec![F::zero(), F::one()];
    // product of the linear factors
    let xq = powmod(&x, &q, &f);
    let mut d = gcd(&f, &sub(&xq, &x));
    if d.len() <= 1 {
        return None;
    }
    // split until linear
    let half: Vec<u64> = {
        let mut h = F::MODULUS;
        h.div2();
        h.as_ref().to_vec()
    };
    let mut shift = F::one();
    for _ in 0..64 {
        if d.len() == 2 {
            return Some(-d[0] * d[1].inverse().unwrap());
        }
        let t = powmod(&vec![shift, F::one()], &half, &d);
        let g = gcd(&d, &sub(&t, &vec![F::one()]));
        if g.len() > 1 && g.len() < d.len() {
            d = g;
        }
        shift += F::from(3u64);
    }
    None
}
