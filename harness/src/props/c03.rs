//! C03 — the verifier's verdict equals the unbatched Bulletproofs verification relations.
use crate::choices::Choices;
use crate::curves::{Curve, CurveTag};
use crate::drive::{bp_gens, prog_pc, run_batch, run_prover, run_verifier, BatchMember, ProveOpts, VerifyOpts};
use crate::mirror::ProofMirror;
use crate::program::{gen_program, Cap, GenCfg, Op, Program, Sc, Var, CLABELS};
use crate::props::c02::gen_bad;
use crate::props::c08::rand_point;
use crate::refverify::{ref_r1cs, Challenges, RefVerdict};
use crate::runner::{fp_of, replay_corpus, search, Collector, Failure, Report};
use crate::scalars::ScalarSpec;
use crate::script::{decode_draws, encode_draws, rng_stream};
use crate::tlog::{challenge_to_f, challenges};
use crate::with_curve;
use ark_ec::{AffineRepr, CurveGroup};
use ark_ff::{One, Zero};
use merlin::instr::Event;
use serde_json::json;

type Fr<G> = <G as AffineRepr>::ScalarField;

/// challenges y, z, u, x, w, u_1..u_k taken by position from a run's log
pub fn extract_challenges<G: AffineRepr>(log: &[Event], main_id: u64, n_closure: usize) -> Option<Challenges<Fr<G>>> {
    // the harness's own follow-up challenge on the returned transcript is not part of the run
    let all: Vec<_> = challenges(log, main_id).into_iter().filter(|(l, _)| l != b"verif-next").collect();
    if all.len() < n_closure + 5 {
        return None;
    }
    let f = |i: usize| challenge_to_f::<Fr<G>>(&all[i].1);
    let b = n_closure;
    Some(Challenges {
        y: f(b)?,
        z: f(b + 1)?,
        u: f(b + 2)?,
        x: f(b + 3)?,
        w: f(b + 4)?,
        rounds: (b + 5..all.len()).map(|i| f(i)).collect::<Option<Vec<_>>>()?,
    })
}

/// a circuit without any multiplication gate
pub fn gen_zero_gate(ch: &mut Choices, curve: Curve) -> Program {
    let m = ch.below(4);
    let mut ops = vec![];
    for _ in 0..m {
        ops.push(Op::Commit { v: ScalarSpec::gen(ch), blind: ScalarSpec::gen(ch) });
    }
    let nc = ch.below(4);
    for _ in 0..nc {
        let mut lc = vec![];
        for _ in 0..ch.below(3) {
            if m > 0 && ch.chance(180) {
                lc.push((Var::Com(ch.below(m)), Sc::C(ScalarSpec::gen_nonzero(ch))));
            } else {
                lc.push((Var::One, Sc::C(ScalarSpec::gen(ch))));
            }
        }
        ops.push(Op::Constrain { lc, err: None, base: None });
    }
    if ch.chance(100) {
        let mut body = vec![];
        if ch.chance(128) {
            body.push(Op::Challenge { label: ch.below(CLABELS.len()) as u8 });
            if m > 0 {
                body.push(Op::Constrain { lc: vec![(Var::Com(0), Sc::MulReg(ScalarSpec::One, 0))], err: None, base: None });
            }
        }
        ops.push(Op::Closure(body));
    }
    Program { curve, tlabel: ch.below(3) as u8, pre: vec![], ops, owned: ch.chance(64), cap_p: Cap::gen(ch), cap_v: Cap::gen(ch), party_cap: 1, seed: ch.u16() as u64, pc: 0, gens: 0 }
}

fn edit_fields<G: CurveTag>(ch: &mut Choices, m: &mut ProofMirror<G>) -> String {
    let npts = m.n_points();
    if ch.chance(150) {
        let i = ch.below(npts);
        let name = m.point_name(i);
        let old = *m.point_mut(i);
        let kind = ch.below(5);
        let new = match kind {
            0 => G::zero(),
            1 => rand_point::<G>(ch.byte() as u64),
            2 => (-old.into_group()).into_affine(),
            3 => (old.into_group() + G::generator().into_group()).into_affine(),
            _ => {
                let j = ch.below(npts);
                *m.point_mut(j)
            }
        };
        *m.point_mut(i) = new;
        format!("point {} := {}", name, ["identity", "random", "negated", "+B", "copy of another slot"][kind])
    } else {
        let i = ch.below(5);
        let old = *m.scalar_mut(i);
        let kind = ch.below(6);
        let new = match kind {
            0 => Fr::<G>::zero(),
            1 => Fr::<G>::one(),
            2 => -Fr::<G>::one(),
            3 => old + ScalarSpec::gen_nonzero(ch).to_f::<Fr<G>>(),
            4 => ScalarSpec::Rand(ch.byte() as u64).to_f(),
            _ => {
                // swap the two final scalars
                let (a, b) = (m.ipp.a, m.ipp.b);
                m.ipp.a = b;
                m.ipp.b = a;
                return "swap a <-> b".into();
            }
        };
        *m.scalar_mut(i) = new;
        format!("scalar {} := {}", crate::mirror::SCALAR_NAMES[i], ["0", "1", "-1", "+delta", "random", ""][kind])
    }
}

fn edit_shape<G: CurveTag>(ch: &mut Choices, m: &mut ProofMirror<G>) -> String {
    let k = m.ipp.L.len();
    match ch.below(7) {
        0 if k > 0 => {
            m.ipp.L.pop();
            m.ipp.R.pop();
            "last round dropped".into()
        }
        1 if k > 0 => {
            m.ipp.L.pop();
            "|L| = k-1".into()
        }
        2 if k > 0 => {
            m.ipp.R.pop();
            "|R| = k-1".into()
        }
        3 => {
            let p = rand_point::<G>(5);
            m.ipp.L.push(p);
            m.ipp.R.push(p);
            "round appended".into()
        }
        4 => {
            m.ipp.R.push(rand_point::<G>(6));
            "|R| = k+1".into()
        }
        5 if k > 1 => {
            let i = ch.below(k - 1);
            m.ipp.L.swap(i, i + 1);
            m.ipp.R.swap(i, i + 1);
            "two rounds swapped".into()
        }
        _ if k > 0 => {
            let i = ch.below(k);
            let t = m.ipp.L[i];
            m.ipp.L[i] = m.ipp.R[i];
            m.ipp.R[i] = t;
            "L_j <-> R_j".into()
        }
        _ => {
            m.ipp.L.push(rand_point::<G>(7));
            "|L| = k+1".into()
        }
    }
}

fn case<G: CurveTag>(bytes: &[u8], col: &mut Collector, large: bool, wide: bool) -> Result<(), Failure> {
    let cut = bytes.len().min(16);
    let mut chi = Choices::new(&bytes[..cut]);
    let class = chi.weighted(&[12, 14, 26, 10, 12, 18, 8]);
    let cfg = if wide {
        GenCfg { max_ops1: 600, max_closures: 2, max_ops2: 6, max_commits: 200, big_gates: 0, max_terms: 6, wide: true }
    } else {
        GenCfg { max_ops1: 10, max_closures: 2, max_ops2: 6, max_commits: 3, big_gates: if large { 40 } else { 0 }, max_terms: if large { 10 } else { 4 }, wide: false }
    };
    let (prog, mut label): (Program, String) = match class {
        1 => {
            let (p, l) = gen_bad(&bytes[cut..], G::CURVE, &cfg);
            (p, format!("bad witness ({})", l))
        }
        4 => {
            let mut ch = Choices::new(&bytes[cut..]);
            (gen_zero_gate(&mut ch, G::CURVE), "identity-crafted".into())
        }
        _ => {
            let mut ch = Choices::new(&bytes[cut..]);
            (gen_program(&mut ch, G::CURVE, &cfg), "honest".into())
        }
    };
    // C03 always gives the verifier enough generators
    let mut prog = prog;
    prog.cap_v = Cap::Big;
    prog.cap_p = Cap::Big;
    let shape = prog.shape();
    let pj = |extra: &str| json!({"program": prog.to_json(), "proof": extra});
    if class == 5 {
        return own_prover_case::<G>(&mut chi, &prog, col);
    }
    let p = run_prover::<G>(&prog, &ProveOpts { record: class == 4 || class <= 1, ..Default::default() });
    let Some(proof) = p.proof.as_ref() else {
        col.note("prover failed (left to C01)");
        return Ok(());
    };
    let mut mirror = ProofMirror::from_proof(proof);
    let mut crafted_identity: Vec<String> = vec![];
    let mut bc_hold_note = None;
    match class {
        6 => {
            // compensating pair edit with the coefficients of the honest verifier run
            let vr = run_verifier::<G>(&prog, &p.commitments, proof, &VerifyOpts { record: true, ..Default::default() });
            let Some(chs) = extract_challenges::<G>(&vr.log, vr.main_id, vr.challenges.len()) else {
                col.note("compensating edit: honest run lacks challenges");
                return Ok(());
            };
            let r = crate::compensate::fork_challenge::<Fr<G>>(&vr.log, vr.main_id);
            let d: Fr<G> = ScalarSpec::gen_nonzero(&mut chi).to_f();
            let dp = rand_point::<G>(chi.u16() as u64);
            let (sel, sel2) = (chi.byte() as usize, chi.u16() as usize);
            match crate::compensate::compensating_edit::<G>(&mirror, &chs, r, &prog_pc::<G>(&prog).B_blinding, sel, sel2, d, dp) {
                Some((desc, m2)) => {
                    mirror = m2;
                    label = format!("compensating edit: {}", desc);
                }
                None => {
                    col.class("compensating-edit-not-applicable");
                    return Ok(());
                }
            }
        }
        2 => label = format!("field edit: {}", edit_fields::<G>(&mut chi, &mut mirror)),
        3 => label = format!("shape edit: {}", edit_shape::<G>(&mut chi, &mut mirror)),
        4 => {
            // re-prove with one scripted draw forced to zero
            let stream = rng_stream(&p.log);
            let Some(draws) = decode_draws::<Fr<G>>(&stream) else {
                col.note("identity-crafted: RNG stream does not decode into whole draws (not evaluated)");
                return Ok(());
            };
            if draws.is_empty() {
                col.note("identity-crafted: no draws recorded (not evaluated)");
                return Ok(());
            }
            let j = chi.below(draws.len());
            let mut d2 = draws.clone();
            d2[j] = Fr::<G>::zero();
            let Some(script) = encode_draws(&d2) else {
                col.note("identity-crafted: draws cannot be re-encoded (not evaluated)");
                return Ok(());
            };
            let p2 = run_prover::<G>(&prog, &ProveOpts { record: true, script: Some(script), ..Default::default() });
            let ok_script = p2.script.map(|s| !s.exhausted && s.consumed == s.len).unwrap_or(false);
            let Some(proof2) = p2.proof.as_ref() else {
                col.note("identity-crafted: scripted prover failed (not evaluated)");
                return Ok(());
            };
            if !ok_script {
                col.note("identity-crafted: script not honoured exactly (not evaluated)");
                return Ok(());
            }
            mirror = ProofMirror::from_proof(proof2);
            let names = ["A_I1", "A_O1", "S1", "", "", "", "T_1", "T_3", "T_4", "T_5", "T_6"];
            for (i, pt) in mirror.points().iter().enumerate() {
                if pt.is_zero() && !names[i].is_empty() {
                    crafted_identity.push(names[i].to_string());
                }
            }
            label = format!("identity-crafted: draw #{} := 0 -> identity at {:?}", j, crafted_identity);
            // the crafted proof still satisfies (b) and (c) under the prover's own challenges
            if let Some(chp) = extract_challenges::<G>(&p2.log, p2.main_id, p2.challenges.len()) {
                let pc = prog_pc::<G>(&prog);
                let gens = bp_gens::<G>(256, 1);
                let gv: Vec<G> = gens.G(shape.padded(), 1).cloned().collect();
                let hv: Vec<G> = gens.H(shape.padded(), 1).cloned().collect();
                let r = ref_r1cs::<G>(&p2.model, &p2.commitments, &mirror, &pc.B, &pc.B_blinding, &gv, &hv, Some(&chp));
                bc_hold_note = Some((r.b, r.c));
            }
        }
        _ => {}
    }
    let enc = mirror.to_bytes();
    let real_proof = match ark_bulletproofs::r1cs::R1CSProof::<G>::from_bytes(&enc) {
        Ok(x) => x,
        Err(_) => {
            col.class("edit-not-decodable");
            return Ok(());
        }
    };
    let v = run_verifier::<G>(&prog, &p.commitments, &real_proof, &VerifyOpts { record: true, ..Default::default() });
    let real_accept = v.accepted();
    if v.panic.is_some() {
        col.note("real verifier panicked (counted as not accepted; left to C08)");
    }
    let chv = extract_challenges::<G>(&v.log, v.main_id, v.challenges.len());
    if std::env::var("VERIF_DEBUG").is_ok() {
        eprintln!("main_id={} closure_challenges={} log:", v.main_id, v.challenges.len());
        for e in &v.log {
            eprintln!("  {}", crate::tlog::event_short(e));
        }
    }
    let pc = prog_pc::<G>(&prog);
    let gens = bp_gens::<G>(256, 1);
    let gv: Vec<G> = gens.G(shape.padded(), 1).cloned().collect();
    let hv: Vec<G> = gens.H(shape.padded(), 1).cloned().collect();
    let r: RefVerdict = ref_r1cs::<G>(&v.model, &p.commitments, &mirror, &pc.B, &pc.B_blinding, &gv, &hv, chv.as_ref());
    let what = || json!({"program": prog.to_json(), "proof_class": label, "reference": format!("{:?}", r), "real": v.verdict(), "proof_hex": hex::encode(&enc)});
    // an unaltered proof of the crate's own prover: the transcript it was made on defines the
    // challenges. If the relations hold under those and verify still rejects, the verifier
    // rejects something the relations accept (it derived other challenges than the proof's)
    if !real_accept && class <= 1 && v.panic.is_none() {
        if let Some(chp) = extract_challenges::<G>(&p.log, p.main_id, p.challenges.len()) {
            let rp = ref_r1cs::<G>(&p.model, &p.commitments, &mirror, &pc.B, &pc.B_blinding, &gv, &hv, Some(&chp));
            if rp.accept() == Some(true) {
                return Err(Failure::new(
                    "C03:relations-hold-on-the-proofs-own-transcript:real-rejects",
                    format!("the relations hold under the challenges of the transcript this unaltered proof was made on, but verify = {} ({})", v.verdict(), label),
                    what(),
                ));
            }
            col.class("checked-under-the-provers-challenges");
        }
    }
    match r.accept() {
        Some(ra) => {
            if ra != real_accept {
                return Err(Failure::new(
                    format!("C03:{}:real-{}", r.class(), if real_accept { "accepts" } else { "rejects" }),
                    format!("reference relations say {} but verify = {} ({})", r.class(), v.verdict(), label),
                    what(),
                ));
            }
        }
        None => {
            if real_accept {
                return Err(Failure::new("C03:accept-without-challenges", format!("verify accepted but the run's log lacks the protocol challenges ({})", label), what()));
            }
            // The verifier stopped before drawing the challenges although (a) holds. Derive them
            // with the harness's own Fiat–Shamir run (schedule.rs) and evaluate (b), (c).
            let items = crate::schedule::schedule::<G>(&prog, &p.commitments, &mirror);
            let outs = crate::schedule::run(&prog, &items);
            let mut closure = vec![];
            let mut proto = vec![];
            for (it, o) in &outs {
                let f = challenge_to_f::<Fr<G>>(o).unwrap();
                match it {
                    crate::schedule::Item::Challenge { protocol: false, .. } => closure.push(f),
                    _ => proto.push(f),
                }
            }
            if proto.len() >= 5 {
                let own = Challenges { y: proto[0], z: proto[1], u: proto[2], x: proto[3], w: proto[4], rounds: proto[5..].to_vec() };
                let model = crate::schedule::model_run::<Fr<G>>(&prog, &closure);
                let r2 = ref_r1cs::<G>(&model, &p.commitments, &mirror, &pc.B, &pc.B_blinding, &gv, &hv, Some(&own));
                if r2.accept() == Some(true) {
                    return Err(Failure::new(
                        "C03:accept:real-rejects-early",
                        format!("the relations (a), (b), (c) hold under the transcript-derived challenges but verify = {} ({})", v.verdict(), label),
                        what(),
                    ));
                }
                col.class("ref:own-transcript-fallback");
            }
            col.note("verifier stopped before the challenges although (a) holds; judged with the harness's own transcript");
            return Ok(());
        }
    }
    // batch verification is verification too: what the relations reject must be rejected in a
    // batch (alone, beside an accepted proof), and two proofs whose errors are equal and
    // opposite (final scalar a shifted by ±d: never absorbed, so all challenges coincide)
    // must not cancel
    if bytes.first().map(|b| b % 4 == 0).unwrap_or(false) && prog.pc == 0 {
        if r.accept() == Some(false) {
            let solo = run_batch::<G>(&[BatchMember { prog: &prog, commitments: &p.commitments, proof: &real_proof }], 256, 8);
            if matches!(solo.0, Some(Ok(()))) {
                return Err(Failure::new(format!("C03:{}:batch-accepts", r.class()), format!("the relations say {} but batch_verify accepts the proof ({})", r.class(), label), what()));
            }
            col.class("batch:rejected-proof-alone");
        }
        if r.accept() == Some(true) {
            // what the relations accept is accepted in a batch as well (alone and twice over)
            let one = BatchMember { prog: &prog, commitments: &p.commitments, proof: &real_proof };
            let two = BatchMember { prog: &prog, commitments: &p.commitments, proof: &real_proof };
            for (name, members) in [("alone", vec![one]), ("twice", vec![BatchMember { prog: &prog, commitments: &p.commitments, proof: &real_proof }, two])] {
                let (rb, pn) = run_batch::<G>(&members, 256, 7);
                if pn.is_none() && !matches!(rb, Some(Ok(()))) {
                    return Err(Failure::new("C03:accept:batch-rejects", format!("the relations accept the proof but batch_verify ({}) gives {:?} ({})", name, rb, label), what()));
                }
            }
            col.class("batch:accepted-proof");
            let d: Fr<G> = ScalarSpec::gen_nonzero(&mut chi).to_f();
            let (mut mp, mut mm) = (mirror.clone(), mirror.clone());
            mp.ipp.a += d;
            mm.ipp.a -= d;
            if let (Ok(pp), Ok(pm)) = (mp.to_real(), mm.to_real()) {
                let pair = run_batch::<G>(&[BatchMember { prog: &prog, commitments: &p.commitments, proof: &pp }, BatchMember { prog: &prog, commitments: &p.commitments, proof: &pm }], 256, 9);
                if matches!(pair.0, Some(Ok(()))) {
                    return Err(Failure::new("C03:reject:c-only:batch-accepts-cancelling-pair", "two proofs that each violate the inner-product relation (a ± d) are accepted together by batch_verify".to_string(), what()));
                }
                col.class("batch:cancelling-pair");
            }
        }
    }
    if let Some((b, c)) = bc_hold_note {
        if !crafted_identity.is_empty() {
            if b == Some(true) && c == Some(true) {
                col.class("identity-crafted: (b) and (c) hold, (a) fails");
            } else {
                col.note("identity-crafted proof does not satisfy (b)/(c) under the prover's challenges");
            }
        }
    }
    if shape.cons1 + shape.cons2 > 256 {
        col.class("more-than-256-constraints");
    }
    col.class(&format!("ref:{}", r.class()));
    col.class(&format!("class:{}", label.split(':').next().unwrap_or("").split(' ').next().unwrap_or("")));
    let nt = matches!(r.class(), "accept" | "reject:a" | "reject:b-only" | "reject:c-only");
    if nt {
        col.nontrivial(fp_of(&(prog.fingerprint(), label.clone())));
    }
    col.sample(nt, || json!({"program": prog.to_json(), "proof_class": label, "reference": r.class(), "real": v.verdict()}));
    Ok(())
}

/// proofs made by the harness's own prover: honest, or deviating from the protocol in exactly
/// one place (transcript-consistent, so that exactly one term of the relations is violated)
fn own_prover_case<G: CurveTag>(chi: &mut Choices, prog: &Program, col: &mut Collector) -> Result<(), Failure> {
    use crate::ownprover::{own_prove, Cheat};
    let shape = prog.shape();
    let d: Fr<G> = ScalarSpec::gen_nonzero(chi).to_f();
    let cheat: Cheat<Fr<G>> = match chi.weighted(&[20, 28, 9, 9, 11, 7, 9, 7]) {
        0 => Cheat::None,
        1 => Cheat::TShift([1usize, 3, 4, 5, 6][chi.below(5)], d),
        2 => Cheat::EBlind(d),
        3 => Cheat::TBlind(d),
        4 => Cheat::LVec(chi.below(shape.padded()), d),
        5 if shape.padded() > shape.n() && shape.n() > 0 => Cheat::NoPadding,
        5 => Cheat::TShift(1, d),
        6 => Cheat::MaskMismatch(d),
        _ if shape.n2 == 0 => Cheat::JunkPhase2(chi.byte() as u64),
        _ => Cheat::EBlind(d),
    };
    let label = format!("own prover: {:?}", cheat).chars().take(60).collect::<String>();
    let op = own_prove::<G>(prog, prog.seed, &cheat);
    let enc = op.mirror.to_bytes();
    let Ok(real_proof) = ark_bulletproofs::r1cs::R1CSProof::<G>::from_bytes(&enc) else {
        col.class("own-prover:not-decodable");
        return Ok(());
    };
    let v = run_verifier::<G>(prog, &op.commitments, &real_proof, &VerifyOpts { record: true, ..Default::default() });
    let chv = extract_challenges::<G>(&v.log, v.main_id, v.challenges.len());
    let pc = prog_pc::<G>(prog);
    let gens = bp_gens::<G>(256, 1);
    let gv: Vec<G> = gens.G(shape.padded(), 1).cloned().collect();
    let hv: Vec<G> = gens.H(shape.padded(), 1).cloned().collect();
    let r = ref_r1cs::<G>(&v.model, &op.commitments, &op.mirror, &pc.B, &pc.B_blinding, &gv, &hv, chv.as_ref());
    let what = || json!({"program": prog.to_json(), "proof_class": label, "reference": format!("{:?}", r), "real": v.verdict(), "proof_hex": hex::encode(&enc)});
    let Some(ra) = r.accept() else {
        if v.accepted() {
            return Err(Failure::new("C03:own-prover:accept-without-challenges", "verify accepted but the run's log lacks the protocol challenges", what()));
        }
        col.note("own prover: reference undetermined");
        return Ok(());
    };
    if ra != v.accepted() {
        return Err(Failure::new(
            format!("C03:own-prover:{}:real-{}", r.class(), if v.accepted() { "accepts" } else { "rejects" }),
            format!("reference relations say {} but verify = {} ({})", r.class(), v.verdict(), label),
            what(),
        ));
    }
    // an honest run of the independent prover on a satisfied system must be accepted (by both)
    if cheat == Cheat::None && op.model.satisfied() && !ra {
        col.note("own honest proof rejected by the reference (harness self-check)");
    }
    col.class(&format!("ref:{}", r.class()));
    col.class(&format!("own-prover:{}", format!("{:?}", cheat).split('(').next().unwrap_or("")));
    col.class("class:own-prover");
    if matches!(r.class(), "accept" | "reject:b-only" | "reject:c-only") {
        col.nontrivial(fp_of(&(prog.fingerprint(), label.clone())));
    }
    col.sample(true, || json!({"program": prog.to_json(), "proof_class": label, "reference": r.class(), "real": v.verdict()}));
    Ok(())
}

fn dispatch(sub: &str, bytes: &[u8], col: &mut Collector) -> Result<(), Failure> {
    let curve = Curve::from_name(sub.split('/').nth(1).unwrap_or("")).unwrap_or(Curve::Secq);
    let large = sub.ends_with("/large");
    let wide = sub.ends_with("/wide");
    with_curve!(curve, G => case::<G>(bytes, col, large, wide))
}

pub fn replay(sub: &str, bytes: &[u8], col: &mut Collector) -> Result<(), Failure> {
    dispatch(sub, bytes, col)
}

pub fn run(tier: &str, seed: u64) -> i32 {
    let mut rep = Report::new("C03", tier, seed);
    rep.rule = "(statement, proof) pairs: honest; honest procedure on a bad witness; honest then one field edited through the mirror (point := identity / random / negated / +B / copy, scalar := 0 / ±1 / +δ / random / a↔b); shape edits (rounds dropped / appended / swapped, |L| ≠ |R|, L_j↔R_j); relation-satisfying proofs with an identity mandatory point obtained from the real prover with one scripted RNG draw forced to 0 on zero-gate circuits; proofs made by the harness's own clean-room prover (own Fiat–Shamir, own inner-product argument), honest or deviating in exactly one place (T_i commits to t_i+δ with t_x consistent, ẽ+δ, t̃+δ, l+δ·e_i inside the IPP, zero padding, masking mismatch) so that exactly one term of the relations is violated. Oracle: clean-room unbatched verifier (a)∧(b)∧(c) with explicit folding, challenges by position from the real run's log. Non-trivial = reference accepts or rejects by exactly one of (a), (b), (c); distinct = (program, edit)".into();
    rep.assumptions = vec![
        "challenge bytes -> scalar conversion (32 bytes -> ChaCha -> uniform field element) is part of the wire protocol and replicated".into(),
        "the order of challenges y, z, u, x, w, u_1..u_k after the closure challenges is taken from the protocol (C06 checks the schedule itself)".into(),
    ];
    let n = super::scale(tier, 2000, 20000);
    for c in Curve::ALL {
        if !rep.outcome.found.is_empty() {
            break;
        }
        let sub = format!("c03/{}", c.name());
        rep.outcome.merge(replay_corpus("C03", &sub, &|b, col| dispatch(&sub, b, col)));
        rep.outcome.merge(search(&sub, seed, n, 600, &|b, col| dispatch(&sub, b, col)));
        let subl = format!("c03/{}/large", c.name());
        let nl = super::scale(tier, 24, 400);
        rep.outcome.merge(search(&subl, seed, nl, 900, &|b, col| dispatch(&subl, b, col)));
        let subw = format!("c03/{}/wide", c.name());
        let nw = super::scale(tier, 24, 200);
        rep.outcome.merge(crate::runner::search_len(&subw, seed, nw, 5000, 9000, &|b, col| dispatch(&subw, b, col)));
    }
    for (c, f) in [("ref:accept", 0.05), ("ref:reject:a", 0.03), ("ref:reject:b-only", 0.03), ("ref:reject:c-only", 0.03), ("identity-crafted: (b) and (c) hold, (a) fails", 0.01), ("own-prover:None", 0.01), ("own-prover:TShift", 0.02), ("own-prover:LVec", 0.005), ("own-prover:EBlind", 0.005)] {
        rep.required_classes.push((c.to_string(), f));
    }
    rep.finish()
}
