//! C04 — proof integrity: no altered version of a valid proof is accepted.
use crate::choices::Choices;
use crate::curves::{Curve, CurveTag};
use crate::drive::{guarded, prog_pc, run_batch, run_prover, run_verifier, BatchMember, ProveOpts, VerifyOpts};
use crate::mirror::ProofMirror;
use crate::program::{gen_program, Cap, GenCfg, Program};
use crate::props::c08::{fixture, rand_point};
use crate::props::c11::{point_offset, scalar_offset};
use crate::runner::{enumerate, fp_of, replay_corpus, search, Collector, Failure, Report};
use crate::scalars::ScalarSpec;
use crate::with_curve;
use ark_bulletproofs::r1cs::R1CSProof;
use ark_ec::{AffineRepr, CurveGroup};
use ark_ff::{BigInteger, One, PrimeField, Zero};
use ark_serialize::CanonicalSerialize;
use serde_json::{json, Value};

type Fr<G> = <G as AffineRepr>::ScalarField;

#[derive(Debug, PartialEq, Eq)]
pub enum Outcome4 {
    DecodeError,
    VerifyError,
    IdenticalObject,
    /// a different object was accepted: the violation
    AcceptedDifferent,
    Panic(String),
}

/// the oracle: decode error, or verification error, or the identical object
pub fn judge<G: CurveTag>(prog: &Program, commitments: &[G], original: &[u8], mutated: &[u8]) -> Outcome4 {
    let d = match guarded(|| R1CSProof::<G>::from_bytes(mutated)) {
        Err(p) => return Outcome4::Panic(p),
        Ok(Err(_)) => return Outcome4::DecodeError,
        Ok(Ok(d)) => d,
    };
    if d.to_bytes().ok().as_deref() == Some(original) {
        return Outcome4::IdenticalObject;
    }
    let v = run_verifier::<G>(prog, commitments, &d, &VerifyOpts::default());
    if let Some(p) = v.panic {
        return Outcome4::Panic(p);
    }
    if v.accepted() {
        Outcome4::AcceptedDifferent
    } else {
        Outcome4::VerifyError
    }
}

/// the same oracle through batch verification (the altered proof alone in a batch)
pub fn judge_batch<G: CurveTag>(prog: &Program, commitments: &[G], original: &[u8], mutated: &[u8]) -> Outcome4 {
    let d = match guarded(|| R1CSProof::<G>::from_bytes(mutated)) {
        Err(p) => return Outcome4::Panic(p),
        Ok(Err(_)) => return Outcome4::DecodeError,
        Ok(Ok(d)) => d,
    };
    if d.to_bytes().ok().as_deref() == Some(original) {
        return Outcome4::IdenticalObject;
    }
    let mut pv = prog.clone();
    pv.cap_v = Cap::Big;
    let (r, pn) = run_batch::<G>(&[BatchMember { prog: &pv, commitments, proof: &d }], 256, 11);
    if let Some(p) = pn {
        return Outcome4::Panic(p);
    }
    if matches!(r, Some(Ok(()))) {
        Outcome4::AcceptedDifferent
    } else {
        Outcome4::VerifyError
    }
}

fn record(col: &mut Collector, o: &Outcome4) {
    col.class(match o {
        Outcome4::DecodeError => "rejected-at-decoding",
        Outcome4::VerifyError => "rejected-at-verification",
        Outcome4::IdenticalObject => "decodes-to-identical-object",
        Outcome4::AcceptedDifferent => "ACCEPTED-DIFFERENT",
        Outcome4::Panic(_) => "panic",
    });
}

// ---------------------------------------------------------------------------------------
// exhaustive single-bit flips

#[derive(Clone, Copy, Debug, PartialEq, Eq, Hash)]
pub struct FlipChunk {
    pub curve: Curve,
    pub g: usize,
    pub g2: usize,
    /// byte range [start, start+len)
    pub start: usize,
    pub len: usize,
}

impl FlipChunk {
    pub fn encode(&self) -> Vec<u8> {
        let mut v = vec![self.curve.index() as u8, self.g as u8, self.g2 as u8, self.len as u8];
        v.extend_from_slice(&(self.start as u32).to_le_bytes());
        v
    }
    pub fn decode(b: &[u8]) -> Option<Self> {
        if b.len() != 8 {
            return None;
        }
        Some(FlipChunk { curve: *Curve::ALL.get(b[0] as usize)?, g: b[1] as usize, g2: b[2] as usize, len: b[3] as usize, start: u32::from_le_bytes([b[4], b[5], b[6], b[7]]) as usize })
    }
}

fn flip_chunk<G: CurveTag>(c: &FlipChunk, col: &mut Collector) -> Result<(), Failure> {
    let fx = fixture::<G>(c.g, c.g2);
    let o = &fx.bytes;
    for byte in c.start..(c.start + c.len).min(o.len()) {
        for bit in 0..8 {
            col.evals_add(1);
            let mut m = o.clone();
            m[byte] ^= 1 << bit;
            let mut r = judge::<G>(&fx.prog, &fx.commitments, o, &m);
            if r == Outcome4::VerifyError && (byte + bit) % 8 == 0 && judge_batch::<G>(&fx.prog, &fx.commitments, o, &m) == Outcome4::AcceptedDifferent {
                r = Outcome4::AcceptedDifferent;
            }
            record(col, &r);
            match r {
                Outcome4::AcceptedDifferent => {
                    return Err(Failure::new(
                        "C04:bit-flip-accepted",
                        format!("flipping bit {} of byte {} of a valid proof (gates {}+{}) yields a different proof object that verifies", bit, byte, c.g - c.g2, c.g2),
                        json!({"curve": c.curve.name(), "gates": [c.g - c.g2, c.g2], "byte": byte, "bit": bit, "original_hex": hex::encode(o)}),
                    ))
                }
                Outcome4::Panic(p) => col.note(&format!("panic on a bit flip (left to C08): {}", p.split('@').last().unwrap_or(""))),
                Outcome4::VerifyError => col.nontrivial(fp_of(&(c.curve, c.g, c.g2, byte, bit))),
                _ => {}
            }
        }
    }
    Ok(())
}

fn dispatch_flip(c: &FlipChunk, col: &mut Collector) -> Result<(), Failure> {
    with_curve!(c.curve, G => flip_chunk::<G>(c, col))
}

fn flip_items(shapes: &[(usize, usize)]) -> Vec<FlipChunk> {
    let mut v = vec![];
    for curve in Curve::ALL {
        for (g, g2) in shapes {
            let len = with_curve!(curve, G => fixture::<G>(*g, *g2).bytes.len());
            let mut s = 0;
            while s < len {
                v.push(FlipChunk { curve, g: *g, g2: *g2, start: s, len: 8 });
                s += 8;
            }
        }
    }
    v
}

// ---------------------------------------------------------------------------------------
// structured edits of generated accepted proofs

fn torsion<G: CurveTag>() -> Vec<G> {
    if G::COFACTOR == 1 {
        return vec![];
    }
    let r = <Fr<G> as PrimeField>::MODULUS;
    let mut out: Vec<G> = vec![];
    for y in 2u64..200 {
        let mut b = vec![0u8; G::PT];
        b[..8].copy_from_slice(&y.to_le_bytes());
        use ark_serialize::CanonicalDeserialize;
        if let Ok(q) = G::deserialize_compressed_unchecked(&b[..]) {
            let t = q.mul_bigint(r).into_affine();
            let mut m = t;
            for _ in 0..8 {
                if !m.is_zero() && !out.contains(&m) {
                    out.push(m);
                }
                m = (m.into_group() + t.into_group()).into_affine();
            }
        }
        if out.len() >= 7 {
            break;
        }
    }
    out
}

/// applies one edit; returns (description, mutated bytes)
fn edit<G: CurveTag>(ch: &mut Choices, m0: &ProofMirror<G>, o: &[u8], prog: &Program) -> (String, Vec<u8>) {
    let mut m = m0.clone();
    let k = m.ipp.L.len();
    let npts = m.n_points();
    let pc = prog_pc::<G>(prog);
    match ch.weighted(&[30, 22, 14, 14, 10, 10]) {
        // point edits
        0 => {
            let i = ch.below(npts);
            let name = m.point_name(i);
            let old = *m.point_mut(i);
            let tors = torsion::<G>();
            let kind = ch.below(if tors.is_empty() { 5 } else { 6 });
            let new: G = match kind {
                0 => (-old.into_group()).into_affine(),
                1 => (old.into_group() + pc.B.into_group()).into_affine(),
                2 => (old.into_group() + pc.B_blinding.into_group()).into_affine(),
                3 => rand_point::<G>(ch.u16() as u64),
                4 => G::zero(),
                _ => (old.into_group() + tors[ch.below(tors.len())].into_group()).into_affine(),
            };
            *m.point_mut(i) = new;
            (format!("point {} := {}", name, ["-P", "P+B", "P+B_blinding", "random", "identity", "P+T (small-order offset)"][kind]), m.to_bytes())
        }
        // scalar edits
        1 => {
            let i = ch.below(5);
            let name = crate::mirror::SCALAR_NAMES[i];
            let old = *m.scalar_mut(i);
            let kind = ch.below(5);
            if kind == 4 {
                // s + p written as raw bytes (a non-canonical encoding of the same residue)
                let off = scalar_offset::<G>(i, k);
                let mut v = old.into_bigint();
                let carry = v.add_with_carry(&<Fr<G> as PrimeField>::MODULUS);
                let mut b = o.to_vec();
                if !carry {
                    let mut le = v.to_bytes_le();
                    le.resize(G::SC, 0);
                    b[off..off + G::SC].copy_from_slice(&le);
                } else {
                    b[off + G::SC - 1] ^= 0x80;
                }
                return (format!("scalar {} := s + p as raw bytes", name), b);
            }
            let new = match kind {
                0 => old + Fr::<G>::one(),
                1 => old - Fr::<G>::one(),
                2 => -old,
                _ => Fr::<G>::zero(),
            };
            *m.scalar_mut(i) = new;
            (format!("scalar {} := {}", name, ["s+1", "s-1", "-s", "0"][kind]), m.to_bytes())
        }
        // pairwise swap of same-typed fields
        2 => {
            if ch.chance(160) {
                let i = ch.below(npts);
                let mut j = ch.below(npts - 1);
                if j >= i {
                    j += 1;
                }
                let (a, b) = (*m.point_mut(i), *m.point_mut(j));
                *m.point_mut(i) = b;
                *m.point_mut(j) = a;
                (format!("swap points {} <-> {}", m0.point_name(i), m0.point_name(j)), m.to_bytes())
            } else {
                let i = ch.below(5);
                let mut j = ch.below(4);
                if j >= i {
                    j += 1;
                }
                let (a, b) = (*m.scalar_mut(i), *m.scalar_mut(j));
                *m.scalar_mut(i) = b;
                *m.scalar_mut(j) = a;
                (format!("swap scalars {} <-> {}", crate::mirror::SCALAR_NAMES[i], crate::mirror::SCALAR_NAMES[j]), m.to_bytes())
            }
        }
        // inner-product rounds
        3 => {
            let kind = ch.below(12);
            let desc = match kind {
                9 | 10 => {
                    // one or two rounds whose two points are the identity, at any position
                    let n = if kind == 9 { 1 } else { 2 };
                    for _ in 0..n {
                        let i = ch.below(m.ipp.L.len() + 1);
                        m.ipp.L.insert(i, G::zero());
                        m.ipp.R.insert(i, G::zero());
                    }
                    "identity round(s) inserted"
                }
                11 => {
                    let i = ch.below(m.ipp.L.len() + 1);
                    let p = rand_point::<G>(7);
                    m.ipp.L.insert(i, p);
                    m.ipp.R.insert(i, (-p.into_group()).into_affine());
                    "round (P, −P) inserted"
                }
                0 if k > 0 => {
                    std::mem::swap(&mut m.ipp.L, &mut m.ipp.R);
                    "L list <-> R list"
                }
                6 => {
                    // one-sided growth: the lists carry independent length prefixes
                    m.ipp.R.push(rand_point::<G>(3));
                    "extra element appended to R only"
                }
                7 => {
                    m.ipp.L.push(rand_point::<G>(4));
                    "extra element appended to L only"
                }
                8 if k > 0 => {
                    let last = *m.ipp.R.last().unwrap();
                    m.ipp.R.push(last);
                    "last R duplicated"
                }
                1 if k > 1 => {
                    let i = ch.below(k - 1);
                    m.ipp.L.swap(i, i + 1);
                    m.ipp.R.swap(i, i + 1);
                    "two rounds reordered"
                }
                2 if k > 0 => {
                    let i = ch.below(k);
                    let (l, r) = (m.ipp.L[i], m.ipp.R[i]);
                    m.ipp.L.insert(i, l);
                    m.ipp.R.insert(i, r);
                    "round duplicated"
                }
                3 if k > 0 => {
                    let i = ch.below(k);
                    m.ipp.L.remove(i);
                    m.ipp.R.remove(i);
                    "round dropped"
                }
                4 if k > 0 => {
                    m.ipp.R.pop();
                    "last R dropped"
                }
                _ => {
                    m.ipp.L.push(rand_point::<G>(1));
                    m.ipp.R.push(rand_point::<G>(2));
                    "round appended"
                }
            };
            (format!("rounds: {}", desc), m.to_bytes())
        }
        // byte level
        4 => {
            let mut b = o.to_vec();
            match ch.below(4) {
                0 => {
                    let n = ch.below(b.len());
                    b.truncate(n);
                    ("bytes: truncated".into(), b)
                }
                1 => {
                    let n = 1 + ch.below(40);
                    let extra = ch.bytes(n);
                    b.extend(extra);
                    ("bytes: extended (trailing bytes)".into(), b)
                }
                2 => {
                    let off = if ch.chance(128) { 11 * G::PT + 3 * G::SC } else { 11 * G::PT + 3 * G::SC + 8 + k * G::PT };
                    let val = match ch.below(4) {
                        0 => k as u64 + 1,
                        1 => k.saturating_sub(1) as u64,
                        2 => 0,
                        _ => u64::MAX,
                    };
                    b[off..off + 8].copy_from_slice(&val.to_le_bytes());
                    ("bytes: length prefix edited".into(), b)
                }
                _ => {
                    let i = ch.below(b.len());
                    b[i] = b[i].wrapping_add(1 + ch.below(255) as u8);
                    ("bytes: one byte changed".into(), b)
                }
            }
        }
        // encoding-level point edits: flag bits / infinity with garbage x (same-object candidates)
        _ => {
            let i = ch.below(npts);
            let off = point_offset::<G>(i, k);
            let mut b = o.to_vec();
            let last = off + G::PT - 1;
            match ch.below(3) {
                0 => {
                    b[last] ^= 1 << ch.below(8);
                    (format!("encoding: flag/top byte bit of {}", m0.point_name(i)), b)
                }
                1 => {
                    b[last] ^= 0x80;
                    (format!("encoding: sign bit of {}", m0.point_name(i)), b)
                }
                _ => {
                    let j = off + ch.below(G::PT - 1);
                    b[j] ^= 1 << ch.below(8);
                    (format!("encoding: coordinate bit of {}", m0.point_name(i)), b)
                }
            }
        }
    }
}

fn edit_case<G: CurveTag>(bytes: &[u8], col: &mut Collector) -> Result<(), Failure> {
    let cut = bytes.len().min(32);
    let mut chi = Choices::new(&bytes[..cut]);
    let mut ch = Choices::new(&bytes[cut..]);
    let cfg = GenCfg { max_ops1: 10, max_closures: 2, max_ops2: 6, max_commits: 3, big_gates: 16, max_terms: 4, wide: false };
    let mut prog = gen_program(&mut ch, G::CURVE, &cfg);
    prog.cap_v = Cap::Big;
    let p = run_prover::<G>(&prog, &ProveOpts::default());
    let (Some(proof), Some(o)) = (p.proof.as_ref(), p.bytes.as_ref()) else {
        col.note("prover failed (left to C01)");
        return Ok(());
    };
    let v = run_verifier::<G>(&prog, &p.commitments, proof, &VerifyOpts::default());
    if !v.accepted() {
        col.note("generated proof not accepted (left to C01)");
        return Ok(());
    }
    let m0 = ProofMirror::from_proof(proof);
    // compensating pair edits built from the honest run's own coefficients
    {
        use crate::compensate::{compensating_edit, fork_challenge};
        use crate::props::c03::extract_challenges;
        let vr = run_verifier::<G>(&prog, &p.commitments, proof, &VerifyOpts { record: true, ..Default::default() });
        if let Some(chs) = extract_challenges::<G>(&vr.log, vr.main_id, vr.challenges.len()) {
            let r = fork_challenge::<Fr<G>>(&vr.log, vr.main_id);
            for _ in 0..2 {
                let (sel, sel2) = (chi.byte() as usize, chi.u16() as usize);
                let d: Fr<G> = ScalarSpec::gen_nonzero(&mut chi).to_f();
                let dp = rand_point::<G>(chi.u16() as u64);
                let Some((desc, m2)) = compensating_edit::<G>(&m0, &chs, r, &prog_pc::<G>(&prog).B_blinding, sel, sel2, d, dp) else { continue };
                let mutated = m2.to_bytes();
                col.evals_add(1);
                let mut res = judge::<G>(&prog, &p.commitments, o, &mutated);
                if res == Outcome4::VerifyError && judge_batch::<G>(&prog, &p.commitments, o, &mutated) == Outcome4::AcceptedDifferent {
                    res = Outcome4::AcceptedDifferent;
                }
                record(col, &res);
                if res == Outcome4::AcceptedDifferent {
                    return Err(Failure::new(
                        "C04:accepted:compensating-edit",
                        format!("a pair of proof fields can be changed together without the verifier noticing: {}", desc),
                        json!({"program": prog.to_json(), "edit": desc, "original_hex": hex::encode(o), "mutated_hex": hex::encode(&mutated)}),
                    ));
                }
                col.class("edit:compensating-pair");
                if res == Outcome4::VerifyError {
                    col.nontrivial(fp_of(&(prog.fingerprint(), desc)));
                }
            }
        } else {
            col.note("honest verifier run lacks the challenges: compensating edits not evaluated");
        }
    }
    // two altered copies of the accepted proof whose alterations are equal and opposite (the
    // final scalars are never absorbed, so the copies share every challenge): together in a batch
    {
        let d: Fr<G> = ScalarSpec::gen_nonzero(&mut chi).to_f();
        let which_b = chi.chance(128);
        let (mut mp, mut mm) = (m0.clone(), m0.clone());
        if which_b {
            mp.ipp.b += d;
            mm.ipp.b -= d;
        } else {
            mp.ipp.a += d;
            mm.ipp.a -= d;
        }
        if let (Ok(pp), Ok(pm)) = (mp.to_real(), mm.to_real()) {
            let mut pv = prog.clone();
            pv.cap_v = Cap::Big;
            for (name, members) in [
                ("pair", vec![BatchMember { prog: &pv, commitments: &p.commitments, proof: &pp }, BatchMember { prog: &pv, commitments: &p.commitments, proof: &pm }]),
                ("pair-after-the-original", vec![BatchMember { prog: &pv, commitments: &p.commitments, proof }, BatchMember { prog: &pv, commitments: &p.commitments, proof: &pp }, BatchMember { prog: &pv, commitments: &p.commitments, proof: &pm }]),
            ] {
                let (r, pn) = run_batch::<G>(&members, 256, 21);
                col.evals_add(1);
                if pn.is_none() && matches!(r, Some(Ok(()))) {
                    return Err(Failure::new(
                        "C04:accepted:opposite-alterations-in-a-batch",
                        format!("two altered copies of a valid proof (final scalar {} shifted by +d and -d) are accepted together by batch_verify ({})", if which_b { "b" } else { "a" }, name),
                        json!({"program": prog.to_json(), "original_hex": hex::encode(o)}),
                    ));
                }
            }
            col.class("edit:opposite-copies-in-a-batch");
        }
    }
    let nedits = 3;
    for _ in 0..nedits {
        let (desc, mutated) = edit::<G>(&mut chi, &m0, o, &prog);
        if mutated == *o {
            col.class("edit-is-a-no-op");
            continue;
        }
        col.evals_add(1);
        let mut r = judge::<G>(&prog, &p.commitments, o, &mutated);
        if r == Outcome4::VerifyError && judge_batch::<G>(&prog, &p.commitments, o, &mutated) == Outcome4::AcceptedDifferent {
            col.class("accepted-only-by-batch_verify");
            r = Outcome4::AcceptedDifferent;
        }
        record(col, &r);
        let cj = || -> Value { json!({"program": prog.to_json(), "edit": desc, "original_hex": hex::encode(o), "mutated_hex": hex::encode(&mutated)}) };
        match &r {
            Outcome4::AcceptedDifferent => {
                return Err(Failure::new(
                    format!("C04:accepted:{}", desc.split(':').next().unwrap_or("").split(' ').next().unwrap_or("")),
                    format!("an altered proof that decodes to a different object was accepted: {}", desc),
                    cj(),
                ))
            }
            Outcome4::Panic(p) => col.note(&format!("panic (left to C08): {}", p.split('@').last().unwrap_or(""))),
            _ => {}
        }
        col.class(&format!("edit:{}", desc.split(':').next().unwrap_or("").split(' ').next().unwrap_or("")));
        let nt = matches!(r, Outcome4::VerifyError);
        if nt {
            col.nontrivial(fp_of(&(prog.fingerprint(), desc.clone())));
        }
        col.sample(nt, || json!({"program": prog.to_json(), "edit": desc, "outcome": format!("{:?}", r)}));
    }
    // a verifier holding a generator object that overstates its capacity (fewer generators than
    // its public field says): if the unaltered proof is accepted there at all, altered ones must
    // still be rejected
    let padded = prog.shape().padded();
    if padded >= 2 && chi.chance(40) {
        let hostile = || VerifyOpts::<G> { cap: Some(padded), real_cap: Some(padded / 2), ..Default::default() };
        let b = run_verifier::<G>(&prog, &p.commitments, proof, &hostile());
        if b.accepted() {
            for (name, mm) in [("t_x+1", { let mut m = m0.clone(); m.t_x += <Fr<G> as ark_ff::One>::one(); m }), ("A_I1 := −A_I1", { let mut m = m0.clone(); m.A_I1 = (-m.A_I1.into_group()).into_affine(); m }), ("ipp.a+1", { let mut m = m0.clone(); m.ipp.a += <Fr<G> as ark_ff::One>::one(); m })] {
                let Ok(alt) = mm.to_real() else { continue };
                col.evals_add(1);
                if run_verifier::<G>(&prog, &p.commitments, &alt, &hostile()).accepted() {
                    return Err(Failure::new(
                        "C04:accepted:under-overstated-generators",
                        format!("a verifier whose generator object holds {} generators but declares {} accepts the proof and also the altered proof ({})", padded / 2, padded, name),
                        json!({"program": prog.to_json(), "edit": name, "original_hex": hex::encode(o)}),
                    ));
                }
            }
            col.class("overstated-generators:baseline-accepted");
        } else {
            col.class("overstated-generators:baseline-not-accepted");
        }
    }
    Ok(())
}

fn dispatch(sub: &str, bytes: &[u8], col: &mut Collector) -> Result<(), Failure> {
    let curve = Curve::from_name(sub.split('/').nth(1).unwrap_or("")).unwrap_or(Curve::Secq);
    with_curve!(curve, G => edit_case::<G>(bytes, col))
}

pub fn replay(sub: &str, bytes: &[u8], col: &mut Collector) -> Result<(), Failure> {
    if sub == "c04/flips" {
        let c = FlipChunk::decode(bytes).ok_or_else(|| Failure::new("machinery:replay", "bad chunk", json!(null)))?;
        return dispatch_flip(&c, col);
    }
    dispatch(sub, bytes, col)
}

pub fn run(tier: &str, seed: u64) -> i32 {
    let mut rep = Report::new("C04", tier, seed);
    rep.rule = "accepted proofs × (a) every single-bit flip of the encoding, exhaustively; (b) generated single-field edits: point := −P / P+B / P+B̃ / random / identity / P+T (small-order offset, curve25519), scalar := s±1 / −s / 0 / s+p as raw bytes, pairwise swaps of same-typed fields, L↔R, rounds reordered / duplicated / dropped / appended, truncation / extension / length-prefix edits, flag and coordinate bits. Oracle: decode error, or verification error, or the decoded object re-encodes to the original bytes. Non-trivial = the mutation decodes to a different object (rejected by the verification equation); distinct = (proof, mutation)".into();
    rep.assumptions = vec![
        "byte-level changes that decode to the identical object (ignored flag bits, x under the infinity flag, trailing bytes) are allowed by the property and classified separately".into(),
        "forgery resistance beyond the enumerated edit classes is a cryptographic assumption, not tested".into(),
    ];
    let shapes: Vec<(usize, usize)> = if tier == "thorough" {
        vec![(0, 0), (1, 0), (2, 0), (3, 1), (4, 0), (5, 2), (8, 0), (9, 1), (16, 0), (17, 3), (24, 8), (32, 0)]
    } else {
        // rotate the pair of shapes with the seed
        let all = [(2, 0), (5, 1), (1, 0), (3, 1), (4, 2), (8, 2)];
        let i = (seed as usize % 3) * 2;
        vec![(0, 0), all[i], all[i + 1]]
    };
    let items = flip_items(&shapes);
    let mut o = enumerate("c04/flips", &items, &|c| c.encode(), &|c, col| dispatch_flip(c, col));
    o.exhaustive = false;
    rep.extra.insert("bit_flip_shapes".into(), json!(shapes));
    rep.extra.insert("bit_flips_exhaustive_per_proof".into(), json!(true));
    rep.outcome.merge(o);
    let n = super::scale(tier, 800, 8000);
    for c in Curve::ALL {
        if !rep.outcome.found.is_empty() {
            break;
        }
        let sub = format!("c04/{}", c.name());
        rep.outcome.merge(replay_corpus("C04", &sub, &|b, col| dispatch(&sub, b, col)));
        rep.outcome.merge(search(&sub, seed, n, 700, &|b, col| dispatch(&sub, b, col)));
    }
    rep.finish()
}
