//! C10 — the inner-product argument accepts exactly the correct openings, for all lengths 2^k.
#![allow(non_snake_case)]
use crate::choices::Choices;
use crate::curves::{Curve, CurveTag};
use crate::drive::{bp_gens, guarded};
use crate::mirror::IppMirror;
use crate::props::c08::rand_point;
use crate::refverify::ref_ipp;
use crate::runner::{fp_of, replay_corpus, search, Collector, Failure, Report};
use crate::scalars::ScalarSpec;
use crate::tlog::{challenge_to_f, challenges};
use crate::with_curve;
use ark_bulletproofs::verif_hooks::{inner_product, InnerProductProof};
use ark_ec::{AffineRepr, CurveGroup};
use ark_ff::{Field, One, PrimeField, Zero};
use ark_serialize::{CanonicalDeserialize, CanonicalSerialize};
use merlin::instr;
use merlin::Transcript;
use serde_json::json;

type Fr<G> = <G as AffineRepr>::ScalarField;

fn gen_vec<F: PrimeField>(ch: &mut Choices, n: usize, kind: usize) -> Vec<F> {
    match kind {
        // dense random / classes
        0 => (0..n).map(|_| ScalarSpec::gen_nonzero(ch).to_f()).collect(),
        // sparse
        1 => (0..n).map(|_| if ch.chance(170) { F::zero() } else { ScalarSpec::gen(ch).to_f() }).collect(),
        // all zero
        2 => vec![F::zero(); n],
        // unit vector
        3 => {
            let i = ch.below(n);
            (0..n).map(|j| if j == i { F::one() } else { F::zero() }).collect()
        }
        // zeros and ones
        4 => (0..n).map(|_| if ch.chance(128) { F::one() } else { F::zero() }).collect(),
        // lower half zero
        5 => (0..n).map(|j| if j < n / 2 { F::zero() } else { ScalarSpec::gen_nonzero(ch).to_f() }).collect(),
        // upper half zero
        _ => (0..n).map(|j| if j >= n / 2 { F::zero() } else { ScalarSpec::gen_nonzero(ch).to_f() }).collect(),
    }
}

fn to_mirror<G: AffineRepr>(p: &InnerProductProof<G>) -> IppMirror<G> {
    let mut b = vec![];
    p.serialize_compressed(&mut b).unwrap();
    IppMirror::deserialize_compressed(&b[..]).expect("ipp mirror layout")
}
fn from_mirror<G: AffineRepr>(m: &IppMirror<G>) -> Option<InnerProductProof<G>> {
    let mut b = vec![];
    m.serialize_compressed(&mut b).unwrap();
    InnerProductProof::deserialize_compressed(&b[..]).ok()
}

struct Instance<G: AffineRepr> {
    n: usize,
    gf: Vec<Fr<G>>,
    hf: Vec<Fr<G>>,
    P: G,
    Q: G,
    Gv: Vec<G>,
    Hv: Vec<G>,
    label: &'static [u8],
}

/// real verify + reference verify (challenges by position from the real run's log)
fn both<G: CurveTag>(inst: &Instance<G>, m: &IppMirror<G>) -> Result<(bool, bool), String> {
    let Some(proof) = from_mirror(m) else { return Ok((false, false)) };
    instr::start();
    let mut t = Transcript::new(inst.label);
    let id = t.instr_id();
    let r = guarded(|| proof.verify(inst.n, &mut t, inst.gf.iter(), inst.hf.iter(), &inst.P, &inst.Q, &inst.Gv, &inst.Hv));
    let log = instr::take();
    let real = match r {
        Err(p) => return Err(p),
        Ok(x) => x.is_ok(),
    };
    let rounds: Option<Vec<Fr<G>>> = challenges(&log, id).iter().filter(|(l, _)| l == b"u").map(|(_, o)| challenge_to_f::<Fr<G>>(o)).collect();
    let rounds = rounds.unwrap_or_default();
    let shape_ok = inst.n.is_power_of_two() && m.L.len() == m.R.len() && m.L.len() < 32 && (1usize << m.L.len()) == inst.n;
    let reference = if !shape_ok || m.L.iter().chain(m.R.iter()).any(|p| p.is_zero()) {
        false
    } else if rounds.len() != m.L.len() || inst.gf.len() < inst.n || inst.hf.len() < inst.n {
        // the real verifier stopped although shape and points are fine
        return Ok((real, real));
    } else {
        ref_ipp::<G>(inst.n, &inst.gf, &inst.hf, &inst.P, &inst.Q, &inst.Gv, &inst.Hv, &m.L, &m.R, m.a, m.b, &rounds)
    };
    Ok((real, reference))
}

fn case<G: CurveTag>(bytes: &[u8], col: &mut Collector, kmax: usize, force: Option<(usize, usize)>) -> Result<(), Failure> {
    let mut ch = Choices::new(bytes);
    let k = {
        // favour small lengths, but reach every k
        let w: Vec<u32> = (0..=kmax).map(|k| [30u32, 30, 30, 25, 16, 8, 5, 4, 1, 1, 1][k.min(10)]).collect();
        ch.weighted(&w)
    };
    let k = force.map(|f| f.0).unwrap_or(k);
    let n = 1usize << k;
    let akind = ch.weighted(&[40, 12, 4, 8, 10, 13, 13]);
    let bkind = ch.weighted(&[40, 12, 4, 8, 10, 13, 13]);
    let fkind = ch.weighted(&[35, 20, 20, 25]);
    let fkind = force.map(|f| f.1).unwrap_or(fkind);
    let gens_random = ch.chance(60);
    let seed = ch.u16() as u64;
    let a: Vec<Fr<G>> = gen_vec(&mut ch, n, akind);
    let b: Vec<Fr<G>> = gen_vec(&mut ch, n, bkind);
    let one = Fr::<G>::one();
    let (gf, hf): (Vec<Fr<G>>, Vec<Fr<G>>) = match fkind {
        0 => {
            // both random; or one side all-one; or single non-unit entries among ones
            let sub = ch.below(5);
            let mut side = |ch: &mut Choices, unit: bool, sparse: bool| -> Vec<Fr<G>> {
                (0..n).map(|_| if unit || (sparse && !ch.chance(40)) { one } else { ScalarSpec::gen_nonzero(ch).to_f() }).collect()
            };
            let g = side(&mut ch, sub == 2, sub == 3);
            let h = side(&mut ch, sub == 1, sub == 4);
            (g, h)
        }
        1 => (vec![one; n], vec![one; n]),
        2 => {
            let y: Fr<G> = ScalarSpec::Rand(seed).to_f();
            let mut p = one;
            let h: Vec<Fr<G>> = (0..n).map(|_| { let v = p; p *= y; v }).collect();
            (vec![one; n], h)
        }
        _ => {
            // the R1CS layout: 1…1, u…u on G and y^-i·(1|u) on H
            let u: Fr<G> = ScalarSpec::Rand(seed + 1).to_f();
            let y: Fr<G> = ScalarSpec::Rand(seed + 2).to_f();
            let n1 = ch.below(n + 1);
            let g: Vec<Fr<G>> = (0..n).map(|i| if i < n1 { one } else { u }).collect();
            let mut p = one;
            let h: Vec<Fr<G>> = (0..n).map(|i| { let v = p * g[i]; p *= y; v }).collect();
            (g, h)
        }
    };
    let (Gv, Hv): (Vec<G>, Vec<G>) = if gens_random {
        ((0..n).map(|i| rand_point::<G>(seed * 1000 + i as u64)).collect(), (0..n).map(|i| rand_point::<G>(seed * 1000 + 500 + i as u64)).collect())
    } else {
        let gens = bp_gens::<G>(n.max(128), 1);
        (gens.G(n, 1).cloned().collect(), gens.H(n, 1).cloned().collect())
    };
    // "every base Q": mostly random, now and then the identity or a point tied to the generators
    let qkind = if seed % 16 < 4 && n > 0 { (seed % 16) as usize } else { 9 };
    let Q: G = match qkind {
        0 => G::zero(),
        1 => Gv[0],
        2 => (-Hv[0].into_group()).into_affine(),
        3 => (Gv[n - 1].into_group() + Hv[n - 1].into_group()).into_affine(),
        _ => rand_point::<G>(seed + 77),
    };
    // P = <a, g∘G> + <b, h∘H> + <a,b> Q   (own code)
    let mut ip = Fr::<G>::zero();
    let mut Pp = <G as AffineRepr>::Group::zero();
    for i in 0..n {
        ip += a[i] * b[i];
        Pp += Gv[i].mul_bigint((a[i] * gf[i]).into_bigint());
        Pp += Hv[i].mul_bigint((b[i] * hf[i]).into_bigint());
    }
    Pp += Q.mul_bigint(ip.into_bigint());
    let P = Pp.into_affine();
    let what = |extra: &str| json!({"curve": G::CURVE.name(), "k": k, "a_kind": akind, "b_kind": bkind, "factor_kind": fkind, "random_generators": gens_random, "seed": seed, "detail": extra,
        "a": a.iter().take(8).map(crate::scalars::f_hex).collect::<Vec<_>>(), "b": b.iter().take(8).map(crate::scalars::f_hex).collect::<Vec<_>>()});
    if guarded(|| inner_product(&a, &b)).ok() != Some(ip) {
        return Err(Failure::new("C10:inner_product", "inner_product(a, b) differs from Σ a_i·b_i", what("")));
    }
    let mut tp = Transcript::new(b"ipp-test");
    let proof = guarded(|| InnerProductProof::<G>::create(&mut tp, &Q, &gf, &hf, Gv.clone(), Hv.clone(), a.clone(), b.clone()))
        .map_err(|p| Failure::new("C10:create-panic", format!("create panicked: {}", p), what("")))?;
    let m = to_mirror(&proof);
    if m.L.len() != k || m.R.len() != k {
        return Err(Failure::new("C10:rounds", format!("create returned {} / {} rounds for n = 2^{}", m.L.len(), m.R.len(), k), what("")));
    }
    let degenerate = m.L.iter().chain(m.R.iter()).any(|p| p.is_zero());
    let inst = Instance { n, gf: gf.clone(), hf: hf.clone(), P, Q, Gv: Gv.clone(), Hv: Hv.clone(), label: b"ipp-test" };
    let judge = |inst: &Instance<G>, m: &IppMirror<G>, expect: Option<bool>, name: &str| -> Result<(), Failure> {
        let (real, reference) = both::<G>(inst, m).map_err(|p| Failure::new("C10:verify-panic", format!("verify panicked ({}): {}", name, p), what(name)))?;
        if real != reference {
            return Err(Failure::new(
                format!("C10:differs-from-explicit-folding:{}", name.split(' ').next().unwrap_or("")),
                format!("verify = {} but explicit folding with the transcript challenges = {} ({})", real, reference, name),
                what(name),
            ));
        }
        if let Some(e) = expect {
            if real != e {
                return Err(Failure::new(
                    format!("C10:{}:{}", if e { "correct-opening-rejected" } else { "wrong-opening-accepted" }, name.split(' ').next().unwrap_or("")),
                    format!("verify = {} (expected {}) for: {}", real, e, name),
                    what(name),
                ));
            }
        }
        Ok(())
    };
    // the honest proof: accepted iff no round degenerates
    judge(&inst, &m, Some(!degenerate), if degenerate { "honest(degenerate-round)" } else { "honest" })?;
    let mut n_edits = 1u64;
    // a second opening made and checked on the transcripts the first one left behind (lengths 1, 2,
    // 4 after any length): both roles must have moved their transcripts in step
    if !degenerate && seed % 3 == 0 {
        let n2 = 1usize << (seed as usize / 3 % 3);
        let a2: Vec<Fr<G>> = (0..n2).map(|i| ScalarSpec::Rand(seed + 11 + i as u64).to_f()).collect();
        let b2: Vec<Fr<G>> = (0..n2).map(|i| ScalarSpec::Rand(seed + 31 + i as u64).to_f()).collect();
        let ones = vec![Fr::<G>::one(); n2];
        let g2: Vec<G> = (0..n2).map(|i| rand_point::<G>(seed * 7 + i as u64)).collect();
        let h2: Vec<G> = (0..n2).map(|i| rand_point::<G>(seed * 7 + 100 + i as u64)).collect();
        let q2 = rand_point::<G>(seed + 5);
        let mut p2 = <G as AffineRepr>::Group::zero();
        let mut ip2 = Fr::<G>::zero();
        for i in 0..n2 {
            ip2 += a2[i] * b2[i];
            p2 += g2[i].mul_bigint(a2[i].into_bigint());
            p2 += h2[i].mul_bigint(b2[i].into_bigint());
        }
        p2 += q2.mul_bigint(ip2.into_bigint());
        let p2 = p2.into_affine();
        let chained = guarded(|| {
            let second = InnerProductProof::<G>::create(&mut tp, &q2, &ones, &ones, g2.clone(), h2.clone(), a2.clone(), b2.clone());
            let mut tv = Transcript::new(b"ipp-test");
            let first_ok = proof.verify(n, &mut tv, gf.iter(), hf.iter(), &P, &Q, &Gv, &Hv).is_ok();
            let second_ok = second.verify(n2, &mut tv, ones.iter(), ones.iter(), &p2, &q2, &g2, &h2).is_ok();
            (first_ok, second_ok, to_mirror(&second).L.iter().chain(to_mirror(&second).R.iter()).any(|p| p.is_zero()))
        });
        match chained {
            Err(pn) => return Err(Failure::new("C10:create-panic", format!("a second create / verify on the same transcripts panicked: {}", pn), what("chained"))),
            Ok((true, false, false)) => {
                return Err(Failure::new(
                    "C10:chained-opening-rejected",
                    format!("a correct opening of length {} made right after one of length {} on the same transcript is rejected by a verifier that checked the first one on its transcript: the two roles do not move their transcripts in step", n2, n),
                    what("chained"),
                ))
            }
            _ => {}
        }
        n_edits += 1;
        col.class("chained-second-opening");
    }
    if !degenerate {
        // negative edits: each must be rejected, and agree with the reference
        let d: Fr<G> = ScalarSpec::gen_nonzero(&mut ch).to_f();
        let edits: Vec<(&str, Box<dyn Fn(&mut Instance<G>, &mut IppMirror<G>) -> bool>)> = vec![
            ("P+cQ wrong product", Box::new(move |i, _| { if i.Q.is_zero() { return false; } i.P = (i.P.into_group() + i.Q.mul_bigint(d.into_bigint())).into_affine(); true })),
            ("P+G_0", Box::new(|i, _| { i.P = (i.P.into_group() + i.Gv[0].into_group()).into_affine(); true })),
            ("P+T small-order", Box::new(|i, _| {
                // a point of small order (cofactor curves only): r * (some curve point outside the subgroup)
                if G::COFACTOR == 1 { return false; }
                use ark_serialize::CanonicalDeserialize;
                for y in 2u64..60 {
                    let mut b = vec![0u8; G::PT];
                    b[..8].copy_from_slice(&y.to_le_bytes());
                    if let Ok(q) = G::deserialize_compressed_unchecked(&b[..]) {
                        let t = q.mul_bigint(<Fr<G> as PrimeField>::MODULUS);
                        if !ark_std::Zero::is_zero(&t) {
                            i.P = (i.P.into_group() + t).into_affine();
                            return true;
                        }
                    }
                }
                false
            })),
            ("P negated", Box::new(|i, _| { let q = (-i.P.into_group()).into_affine(); if q == i.P { return false; } i.P = q; true })),
            ("P mirrored (same x, other y)", Box::new(|i, _| { match G::same_x_other_y(&i.P) { Some(q) => { i.P = q; true } None => false } })),
            ("a+1", Box::new(|_, m| { m.a += Fr::<G>::one(); true })),
            ("a-1", Box::new(|_, m| { m.a -= Fr::<G>::one(); true })),
            ("b+1", Box::new(|_, m| { m.b += Fr::<G>::one(); true })),
            ("b-d", Box::new(move |_, m| { m.b -= d; true })),
            ("swap-a-b", Box::new(|_, m| { if m.a == m.b { return false; } std::mem::swap(&mut m.a, &mut m.b); true })),
            ("L0<->R0", Box::new(|_, m| { if m.L.is_empty() || m.L[0] == m.R[0] { return false; } let t = m.L[0]; m.L[0] = m.R[0]; m.R[0] = t; true })),
            ("round-dropped", Box::new(|_, m| { if m.L.is_empty() { return false; } m.L.pop(); m.R.pop(); true })),
            ("round-added", Box::new(|_, m| { let p = rand_point::<G>(3); m.L.push(p); m.R.push(p); true })),
            ("rounds-reordered", Box::new(|_, m| { if m.L.len() < 2 || (m.L[0] == m.L[1] && m.R[0] == m.R[1]) { return false; } m.L.swap(0, 1); m.R.swap(0, 1); true })),
            ("G-factor-changed", Box::new(move |i, _| { let j = i.n - 1; if i.Gv.is_empty() { return false; } i.gf[j] += d; true })),
            ("H-factor-changed", Box::new(move |i, _| { i.hf[0] += d; true })),
            ("claimed-n-doubled", Box::new(|i, _| { i.n *= 2; let e = i.gf[0]; i.gf.extend(vec![e; i.n / 2]); i.hf.extend(vec![e; i.n / 2]); let (g, h) = (i.Gv.clone(), i.Hv.clone()); i.Gv.extend(g); i.Hv.extend(h); true })),
            ("claimed-n-halved", Box::new(|i, _| { if i.n < 2 { return false; } i.n /= 2; true })),
            ("claimed-n-zero", Box::new(|i, _| { i.n = 0; i.gf.clear(); i.hf.clear(); i.Gv.clear(); i.Hv.clear(); true })),
            ("claimed-n-minus-one", Box::new(|i, _| { if i.n < 2 { return false; } i.n -= 1; let n = i.n; i.gf.truncate(n); i.hf.truncate(n); i.Gv.truncate(n); i.Hv.truncate(n); true })),
            ("claimed-n-plus-one", Box::new(|i, _| { i.n += 1; let e = i.gf[0]; i.gf.push(e); i.hf.push(e); let (g, h) = (i.Gv[0], i.Hv[0]); i.Gv.push(g); i.Hv.push(h); true })),
            ("claimed-n-three-quarters", Box::new(|i, _| { if i.n < 4 { return false; } i.n = i.n / 4 * 3; let n = i.n; i.gf.truncate(n); i.hf.truncate(n); i.Gv.truncate(n); i.Hv.truncate(n); true })),
            ("transcript-label", Box::new(|i, m| { if m.L.is_empty() { return false; } i.label = b"ipp-other"; true })),
        ];
        // a rotating subset keeps the cost bounded; every edit kind is hit across cases
        let start = ch.below(edits.len());
        let take = if k <= 3 { edits.len() } else { 5 };
        for e in 0..take {
            let (name, f) = &edits[(start + e) % edits.len()];
            let mut i2 = Instance { n, gf: gf.clone(), hf: hf.clone(), P, Q, Gv: Gv.clone(), Hv: Hv.clone(), label: b"ipp-test" };
            let mut m2 = m.clone();
            if !f(&mut i2, &mut m2) {
                continue;
            }
            // a changed factor / product only matters if the touched vector entry is non-zero
            let expect = match *name {
                // with a base Q that is the identity or tied to the generators other openings of
                // the same P exist: only the agreement with explicit folding is asserted
                _ if qkind < 4 => None,
                "G-factor-changed" if a[n - 1].is_zero() => None,
                "H-factor-changed" if b[0].is_zero() => None,
                _ => Some(false),
            };
            judge(&i2, &m2, expect, name)?;
            n_edits += 1;
            col.class(&format!("edit:{}", name));
        }
    }
    col.evals_add(n_edits);
    col.class(&format!("k={}", k));
    if qkind < 4 {
        col.class(["Q:identity", "Q:G_0", "Q:-H_0", "Q:G_last+H_last"][qkind]);
    }
    col.class(["factors:random", "factors:all-one", "factors:powers", "factors:r1cs-like"][fkind]);
    if degenerate {
        col.class("degenerate-round(expected reject)");
    } else {
        col.class("accepted");
    }
    let nt = k >= 1 && fkind != 1;
    if nt {
        col.nontrivial(fp_of(&(G::CURVE, k, akind, bkind, fkind, seed, a.first().map(crate::scalars::f_hex))));
    }
    col.sample(nt, || json!({"curve": G::CURVE.name(), "k": k, "a_kind": akind, "b_kind": bkind, "factor_kind": fkind, "degenerate": degenerate, "edits_checked": n_edits}));
    Ok(())
}

/// deterministic pseudo-random choice bytes for the forced long instances (enough for every
/// vector and factor entry to be drawn from the scalar classes)
fn long_bytes(k: usize, f: usize) -> Vec<u8> {
    let mut x: u64 = 0x9e37_79b9_7f4a_7c15 ^ ((k as u64) << 8 | f as u64);
    (0..(24usize << k)).map(|_| {
        x ^= x << 13;
        x ^= x >> 7;
        x ^= x << 17;
        (x >> 24) as u8
    }).collect()
}

fn dispatch(sub: &str, bytes: &[u8], col: &mut Collector) -> Result<(), Failure> {
    let curve = Curve::from_name(sub.split('/').nth(1).unwrap_or("")).unwrap_or(Curve::Secq);
    let kmax: usize = sub.split('/').nth(2).and_then(|s| s.parse().ok()).unwrap_or(7);
    with_curve!(curve, G => case::<G>(bytes, col, kmax, None))
}

pub fn replay(sub: &str, bytes: &[u8], col: &mut Collector) -> Result<(), Failure> {
    if sub == "c10/long" && bytes.len() == 3 {
        let (k, f) = (bytes[1] as usize, bytes[2] as usize);
        let seed_bytes = long_bytes(k, f);
        return with_curve!(Curve::ALL[bytes[0] as usize % 3], G => case::<G>(&seed_bytes, col, 10, Some((k, f))));
    }
    dispatch(sub, bytes, col)
}

pub fn run(tier: &str, seed: u64) -> i32 {
    let mut rep = Report::new("C10", tier, seed);
    rep.rule = "n = 2^k for k = 0..7; vectors dense / sparse / zero / unit / 0-1 / zero lower or upper half (degenerate rounds); factor vectors random non-zero / all-one / powers / R1CS-like (1…1,u…u and y^-i); Q random; G, H from BulletproofGens or random; create -> k rounds; verify vs explicit-folding reference (challenges by position from the log) and vs the closed form (accept iff no round point is the identity); 23 negative edits (wrong product, P+G_0, P+small-order point, −P, the other point with P's x-coordinate, a±1, b±1, swaps, rounds dropped/added/reordered, factor entry changed, claimed n doubled / halved / zero / n−1 / n+1 / 3n/4, label) each rejected and agreeing with the reference; non-trivial = k ≥ 1 with non-uniform factors; distinct = instance parameters".into();
    rep.assumptions = vec!["access through the guarded re-export verif_hooks::{InnerProductProof, inner_product}".into()];
    let n = super::scale(tier, 700, 12000);
    for c in Curve::ALL {
        if !rep.outcome.found.is_empty() {
            break;
        }
        let sub = format!("c10/{}/{}", c.name(), if tier == "thorough" { 10 } else { 7 });
        rep.outcome.merge(replay_corpus("C10", &sub, &|b, col| dispatch(&sub, b, col)));
        rep.outcome.merge(search(&sub, seed, n, 1200, &|b, col| dispatch(&sub, b, col)));
    }
    // a few long vectors (n = 256, 512, 1024) with non-uniform factors in every run
    if rep.outcome.found.is_empty() {
        let mut items = vec![];
        for c in Curve::ALL {
            for k in [8usize, 9, 10] {
                for f in [0usize, 3] {
                    items.push((c, k, f));
                }
            }
        }
        let o = crate::runner::enumerate(
            "c10/long",
            &items,
            &|(c, k, f)| vec![c.index() as u8, *k as u8, *f as u8],
            &|(c, k, f), col| {
                let seed_bytes = long_bytes(*k, *f);
                with_curve!(*c, G => case::<G>(&seed_bytes, col, 10, Some((*k, *f))))
            },
        );
        rep.outcome.merge(o);
        rep.outcome.exhaustive = false;
    }
    for (c, f) in [("k=0", 0.03), ("k=1", 0.03), ("k=4", 0.02), ("k=7", 0.005), ("degenerate-round(expected reject)", 0.03), ("factors:r1cs-like", 0.05), ("edit:claimed-n-doubled", 0.02), ("edit:claimed-n-zero", 0.02), ("edit:claimed-n-minus-one", 0.01), ("edit:P+cQ wrong product", 0.02)] {
        rep.required_classes.push((c.to_string(), f));
    }
    rep.finish()
}
