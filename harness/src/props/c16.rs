//! C16 — prover and verifier assign identical variables for identical call sequences.
use crate::choices::Choices;
use crate::curves::{Curve, CurveTag};
use crate::drive::{phase1_calls, run_prover, run_verifier, CallRec, ProveOpts, VerifyOpts};
use crate::program::{gen_program, GenCfg, Op, Program};
use crate::runner::{replay_corpus, search, Collector, Failure, Report};
use crate::with_curve;
use ark_bulletproofs::r1cs::R1CSError;
use serde_json::json;

fn compare(prog: &Program, p: &[CallRec], v: &[CallRec], role_p: &str, role_v: &str) -> Result<(), Failure> {
    let cj = |i: usize, a: &CallRec| json!({"program": prog.to_json(), "call_index": i, "call": a.what, "phase2": a.phase2});
    for (role, list) in [(role_p, p), (role_v, v)] {
        for (i, a) in list.iter().enumerate() {
            if a.ret != a.exp {
                return Err(Failure::new(
                    format!("C16:{}-vs-model:{}", role, a.what),
                    format!("{} call #{} `{}` returned {:?}, the allocation model expects {:?}", role, i, a.what, a.ret, a.exp),
                    cj(i, a),
                ));
            }
            if a.len_real != a.len_model {
                return Err(Failure::new(
                    format!("C16:{}-len:{}", role, a.what),
                    format!("{} multipliers_len() = {} after call #{} `{}`, model has {} gates", role, a.len_real, i, a.what, a.len_model),
                    cj(i, a),
                ));
            }
        }
    }
    if p.len() != v.len() {
        return Err(Failure::new("C16:call-count", format!("{} made {} calls, {} made {}", role_p, p.len(), role_v, v.len()), json!({"program": prog.to_json()})));
    }
    for (i, (a, b)) in p.iter().zip(v.iter()).enumerate() {
        if a.ret != b.ret || a.len_real != b.len_real {
            return Err(Failure::new(
                format!("C16:roles-differ:{}", a.what),
                format!("call #{} `{}`: prover got {:?} (len {}), verifier got {:?} (len {})", i, a.what, a.ret, a.len_real, b.ret, b.len_real),
                cj(i, a),
            ));
        }
    }
    Ok(())
}

/// (odd run of allocate, allocate directly next to multiply / allocate_multiplier)
fn alloc_features(ops: &[Op]) -> (bool, bool) {
    let mut odd = false;
    let mut inter = false;
    let mut pending = false;
    let mut last_alloc_kind: Option<bool> = None; // Some(true) = single, Some(false) = full gate
    for op in ops {
        match op {
            Op::Alloc { .. } => {
                pending = !pending;
                if last_alloc_kind == Some(false) {
                    inter = true;
                }
                last_alloc_kind = Some(true);
            }
            Op::AllocMul { .. } | Op::Mul { .. } => {
                if pending {
                    // a full gate allocated while a half-gate is open
                    inter = true;
                }
                if last_alloc_kind == Some(true) {
                    inter = true;
                }
                last_alloc_kind = Some(false);
            }
            _ => {}
        }
    }
    if pending {
        odd = true;
    }
    (odd, inter)
}

fn classify(prog: &Program, col: &mut Collector) -> bool {
    let shape = prog.shape();
    let (mut odd, mut inter) = alloc_features(&prog.ops);
    let flat: Vec<Op> = prog.ops.iter().filter_map(|o| if let Op::Closure(b) = o { Some(b.clone()) } else { None }).flatten().collect();
    let (o2, i2) = alloc_features(&flat);
    odd |= o2;
    inter |= i2;
    if odd {
        col.class("odd-run-of-allocate");
    }
    if inter {
        col.class("allocate-interleaved-with-gates");
    }
    if shape.n2 > 0 {
        col.class("allocation-in-phase2");
    }
    if shape.half_open_end1 && shape.n2 > 0 {
        col.class("open-half-gate-at-switch-then-phase2-allocation");
    }
    odd || inter || shape.n2 > 0
}

/// first-phase sequences: no proof needed
fn case_phase1<G: CurveTag>(bytes: &[u8], col: &mut Collector) -> Result<(), Failure> {
    let mut ch = Choices::new(bytes);
    // most sequences have up to 40 calls, some several hundred
    let long = ch.chance(10);
    let cfg = GenCfg { max_ops1: if long { 600 } else { 40 }, max_closures: 0, max_ops2: 0, max_commits: if long { 300 } else { 5 }, big_gates: 0, max_terms: 4, wide: false };
    let prog = gen_program(&mut ch, G::CURVE, &cfg);
    let (p, v) = phase1_calls::<G>(&prog).map_err(|e| Failure::new("C16:panic", format!("constraint-system construction panicked: {}", e), json!({"program": prog.to_json()})))?;
    compare(&prog, &p, &v, "prover", "verifier")?;
    let nt = classify(&prog, col);
    if p.len() > 100 {
        col.class("long-sequence(>100 calls)");
    }
    if nt {
        col.nontrivial(prog.fingerprint());
    }
    col.sample(nt, || json!({"program": prog.to_json(), "calls": p.iter().map(|c| format!("{}->{:?} len={}", c.what, c.ret, c.len_real)).collect::<Vec<_>>()}));
    Ok(())
}

fn count_alloc_calls(prog: &Program) -> usize {
    let mut n = 0;
    for op in &prog.ops {
        match op {
            Op::Alloc { .. } | Op::AllocMul { .. } => n += 1,
            Op::Closure(b) => n += b.iter().filter(|o| matches!(o, Op::Alloc { .. } | Op::AllocMul { .. })).count(),
            _ => {}
        }
    }
    n
}

/// two-phase sequences: handles inside the closures are recorded during a real prove / verify
fn case_two_phase<G: CurveTag>(bytes: &[u8], col: &mut Collector) -> Result<(), Failure> {
    let mut ch = Choices::new(bytes);
    let cfg = GenCfg { max_ops1: 12, max_closures: 3, max_ops2: 10, max_commits: 3, big_gates: 0, max_terms: 4, wide: false };
    let missing_sel = (ch.chance(70), ch.byte());
    let prog = gen_program(&mut ch, G::CURVE, &cfg);
    let pj = || json!({"program": prog.to_json()});
    let shape = prog.shape();
    // optionally: one allocation call without an assignment
    let total_allocs = count_alloc_calls(&prog);
    if total_allocs > 0 && missing_sel.0 {
        let k = (missing_sel.1 as usize * total_allocs) >> 8;
        // half of the time the caller recovers: it repeats the call with the assignment and goes on
        let retry = ch.chance(128);
        let p = run_prover::<G>(&prog, &ProveOpts { missing_at: Some(k), missing_retry: retry, ..Default::default() });
        if let Some(pn) = &p.panic {
            return Err(Failure::new("C16:missing-panic", format!("allocation without assignment panicked: {}", pn), pj()));
        }
        match &p.missing_result {
            Some(Err(R1CSError::MissingAssignment)) => {}
            other => {
                return Err(Failure::new(
                    "C16:missing-assignment",
                    format!("allocation call #{} without an assignment returned {:?} instead of Err(MissingAssignment)", k, other),
                    pj(),
                ))
            }
        }
        if let Some((before, after)) = p.missing_len {
            if before != after {
                return Err(Failure::new(
                    "C16:missing-side-effect",
                    format!("allocation call #{} without an assignment returned the error but changed the gate count from {} to {}: every later handle is shifted", k, before, after),
                    pj(),
                ));
            }
        }
        if retry {
            // the failed call must have left no trace: same handles as the verifier, and the proof verifies
            let Some(proof) = p.proof.as_ref() else {
                return Err(Failure::new("C16:missing-recovery", format!("after a rejected call was repeated with its assignment, proving failed: {:?} {:?}", p.err, p.panic), pj()));
            };
            let v = run_verifier::<G>(&prog, &p.commitments, proof, &VerifyOpts::default());
            compare(&prog, &p.calls, &v.calls, "prover (one rejected call repeated)", "verifier")?;
            if p.model.satisfied() && !v.accepted() {
                return Err(Failure::new("C16:missing-recovery-verdict", format!("model-satisfied system rejected after a rejected call was repeated: {}", v.verdict()), pj()));
            }
            col.class("missing-assignment-recovered");
            col.nontrivial(crate::runner::fp_of(&(prog.fingerprint(), k, 1u8)));
            return Ok(());
        }
        if p.proof.is_some() || !matches!(p.err, Some(R1CSError::MissingAssignment)) {
            return Err(Failure::new("C16:missing-propagation", format!("proving after a missing assignment gave {:?}", p.err), pj()));
        }
        col.class("missing-assignment");
        col.nontrivial(crate::runner::fp_of(&(prog.fingerprint(), k)));
        return Ok(());
    }
    let p = run_prover::<G>(&prog, &ProveOpts::default());
    let Some(proof) = p.proof.as_ref() else {
        return Err(Failure::new("C16:prove", format!("prove failed: {:?} {:?}", p.err, p.panic), pj()));
    };
    let v = run_verifier::<G>(&prog, &p.commitments, proof, &VerifyOpts::default());
    if v.panic.is_some() {
        return Err(Failure::new("C16:verify-panic", format!("verify panicked: {:?}", v.panic), pj()));
    }
    compare(&prog, &p.calls, &v.calls, "prover", "verifier")?;
    // half-gate semantics are visible through the verdict: the model (which closes an open
    // half-gate with right = out = 0 at the phase end) decides whether the system is satisfied
    if p.model.satisfied() && !v.accepted() {
        return Err(Failure::new("C16:half-gate-verdict", format!("model-satisfied system rejected: {}", v.verdict()), pj()));
    }
    let nt = classify(&prog, col);
    if shape.closures > 0 {
        col.class("two-phase");
    }
    if nt {
        col.nontrivial(prog.fingerprint());
    }
    col.sample(nt, || json!({"program": prog.to_json(), "calls": p.calls.iter().map(|c| format!("{}{}->{:?} len={}", if c.phase2 {"2:"} else {"1:"}, c.what, c.ret, c.len_real)).collect::<Vec<_>>()}));
    Ok(())
}


/// sequences that cross gate index 2^16: 65 5xx full gates, then a generated tail of single
/// and paired allocations (first phase only: no proof needed)
fn case_deep<G: CurveTag>(bytes: &[u8], col: &mut Collector) -> Result<(), Failure> {
    use crate::program::Sc;
    use crate::scalars::ScalarSpec;
    let mut ch = Choices::new(bytes);
    // the lead stops just short of 2^16 (mostly), 2^17 or 2^18 gates
    let lead = [65_520usize, 65_520, 65_520, 131_056, 262_128][ch.below(5)] + ch.below(30);
    let cfg = GenCfg { max_ops1: 60, max_closures: 0, max_ops2: 0, max_commits: 2, big_gates: 0, max_terms: 3, wide: false };
    let tail = gen_program(&mut ch, G::CURVE, &cfg);
    let mut ops: Vec<Op> = Vec::with_capacity(lead + tail.ops.len());
    for _ in 0..lead {
        ops.push(Op::AllocMul { l: Sc::C(ScalarSpec::One), r: Sc::C(ScalarSpec::One) });
    }
    // the tail refers to its own gates: shift every wire index by `lead`
    let shift = |lc: &mut Vec<(crate::program::Var, Sc)>| {
        for (v, _) in lc.iter_mut() {
            *v = match *v {
                crate::program::Var::L(i) => crate::program::Var::L(i + lead),
                crate::program::Var::R(i) => crate::program::Var::R(i + lead),
                crate::program::Var::O(i) => crate::program::Var::O(i + lead),
                o => o,
            };
        }
    };
    for mut op in tail.ops.clone() {
        match &mut op {
            Op::Mul { left, right } => {
                shift(left);
                shift(right);
            }
            Op::Constrain { lc, .. } => shift(lc),
            _ => {}
        }
        ops.push(op);
    }
    let mut prog = tail.clone();
    prog.ops = ops;
    let (p, v) = phase1_calls::<G>(&prog).map_err(|e| Failure::new("C16:deep-panic", format!("constraint-system construction panicked: {}", e), json!({"lead_gates": lead, "tail": tail.to_json()})))?;
    // report against the tail only (the lead is 65 5xx identical calls)
    let small = |mut f: Failure| {
        f.case = json!({"lead_allocate_multiplier_calls": lead, "tail": tail.to_json()});
        f
    };
    compare(&prog, &p, &v, "prover", "verifier").map_err(small)?;
    col.class("crosses-gate-index-2^16");
    if lead > 200_000 {
        col.class("crosses-gate-index-2^18");
    }
    if p.iter().any(|c| c.what == "allocate" && c.len_real > (if lead < 70_000 { 65_536 } else if lead < 140_000 { 131_072 } else { 262_144 })) {
        col.class("single-allocation-beyond-2^16");
        col.nontrivial(crate::runner::fp_of(&(tail.fingerprint(), lead)));
    }
    col.sample(true, || json!({"lead_allocate_multiplier_calls": lead, "tail": tail.to_json(), "last_calls": p.iter().rev().take(6).map(|c| format!("{}->{:?} len={}", c.what, c.ret, c.len_real)).collect::<Vec<_>>()}));
    Ok(())
}

fn dispatch(sub: &str, bytes: &[u8], col: &mut Collector) -> Result<(), Failure> {
    let mut it = sub.split('/');
    let _ = it.next();
    let curve = Curve::from_name(it.next().unwrap_or("")).unwrap_or(Curve::Secq);
    let kind = it.next().unwrap_or("");
    with_curve!(curve, G => match kind {
        "two-phase" => case_two_phase::<G>(bytes, col),
        "deep" => case_deep::<G>(bytes, col),
        _ => case_phase1::<G>(bytes, col),
    })
}

pub fn replay(sub: &str, bytes: &[u8], col: &mut Collector) -> Result<(), Failure> {
    dispatch(sub, bytes, col)
}

pub fn run(tier: &str, seed: u64) -> i32 {
    let mut rep = Report::new("C16", tier, seed);
    rep.rule = "call sequences (≤ 40 calls) over commit / allocate / allocate_multiplier / multiply / constrain / transcript data / randomized closures; after every call handle(prover) = handle(verifier) = handle(allocation model) and multipliers_len() agree; second-phase handles recorded inside closures during a real prove/verify; one allocation call without assignment must give Err(MissingAssignment); non-trivial = odd run of allocate, allocate next to multiply/allocate_multiplier, or allocation in phase 2; distinct = program hash".into();
    rep.assumptions = vec!["the allocation model is written from the ConstraintSystem trait documentation (pairing of consecutive single allocations, pending gate dropped at the phase switch)".into()];
    let n1 = super::scale(tier, 10000, 60000);
    let n2 = super::scale(tier, 2500, 20000);
    for c in Curve::ALL {
        if !rep.outcome.found.is_empty() {
            break;
        }
        let sub = format!("c16/{}/phase1", c.name());
        rep.outcome.merge(replay_corpus("C16", &sub, &|b, col| dispatch(&sub, b, col)));
        rep.outcome.merge(search(&sub, seed, n1, 700, &|b, col| dispatch(&sub, b, col)));
        let sub2 = format!("c16/{}/two-phase", c.name());
        rep.outcome.merge(replay_corpus("C16", &sub2, &|b, col| dispatch(&sub2, b, col)));
        rep.outcome.merge(search(&sub2, seed, n2, 700, &|b, col| dispatch(&sub2, b, col)));
        let sub3 = format!("c16/{}/deep", c.name());
        let n3 = super::scale(tier, 16, 160);
        rep.outcome.merge(crate::runner::search_len(&sub3, seed, n3, 300, 700, &|b, col| dispatch(&sub3, b, col)));
    }
    for (c, f) in [("odd-run-of-allocate", 0.05), ("allocate-interleaved-with-gates", 0.05), ("allocation-in-phase2", 0.03), ("open-half-gate-at-switch-then-phase2-allocation", 0.01), ("missing-assignment", 0.01), ("long-sequence(>100 calls)", 0.005), ("single-allocation-beyond-2^16", 0.0002)] {
        rep.required_classes.push((c.to_string(), f));
    }
    rep.finish()
}
