//! C12 — generators are deterministic, history-independent, distinct and of prime order.
use crate::choices::Choices;
use crate::curves::{Curve, CurveTag};
use crate::drive::guarded;
use crate::fixtures;
use crate::refgens::{self, digest_points, enc};
use crate::runner::{fp_of, replay_corpus, search, Collector, Failure, Found, Report};
use crate::with_curve;
use ark_bulletproofs::{BulletproofGens, PedersenGens};
use ark_ec::AffineRepr;
use ark_ff::PrimeField;
use ark_serialize::{CanonicalDeserialize, CanonicalSerialize};
use serde_json::json;
use std::collections::HashSet;

fn flat_ref<G: CurveTag>(kind: u8, n: usize, m: usize) -> Vec<G> {
    let mut v = vec![];
    for j in 0..m {
        v.extend(refgens::gens::<G>(kind, j as u32, n));
    }
    v
}

/// the same consumers on the iterator's own type (a boxed `dyn Iterator` only forwards `next`,
/// `nth` and `size_hint`, so overrides of `fold` and friends would be bypassed)
fn concrete_checks<'a, G: CurveTag, I: Iterator<Item = &'a G>>(mk: &dyn Fn() -> I, exp: &[G], n: usize) -> Option<String> {
    let len = exp.len();
    if mk().count() != len {
        return Some(format!("count() is not {}", len));
    }
    if mk().last().copied() != exp.last().copied() {
        return Some("last() is not the final item".into());
    }
    if mk().fold(0usize, |a, _| a + 1) != len || mk().map(|_| 1usize).sum::<usize>() != len {
        return Some(format!("fold / sum do not visit {} items", len));
    }
    let mut all: Vec<G> = vec![];
    mk().for_each(|p| all.push(*p));
    if all[..] != exp[..] {
        return Some("for_each does not visit the listing in order".into());
    }
    for k in [0usize, 1, n.saturating_sub(1), n, n + 1, 2 * n, len / 2, len.saturating_sub(2)] {
        let rest = len.saturating_sub(k + 1);
        let mut it = mk();
        if it.nth(k).copied() != exp.get(k).copied() {
            return Some(format!("nth({}) is not item {}", k, k));
        }
        let mut seen: Vec<G> = vec![];
        it.for_each(|p| seen.push(*p));
        if seen[..] != exp[(k + 1).min(len)..] {
            return Some(format!("for_each after nth({}) does not visit items {}..", k, k + 1));
        }
        let mut it = mk();
        let _ = it.nth(k);
        if it.count() != rest {
            return Some(format!("count() after nth({}) is not {}", k, rest));
        }
        let mut it = mk();
        for _ in 0..k.min(len) {
            let _ = it.next();
        }
        if it.fold(0usize, |a, _| a + 1) != len - k.min(len) {
            return Some(format!("fold after {} next() calls does not visit the remaining {} items", k, len - k.min(len)));
        }
        let mut it = mk().skip(k);
        let first = it.next().copied();
        if first != exp.get(k).copied() || it.last().copied() != if k + 1 < len { exp.last().copied() } else { None } {
            return Some(format!("skip({}) then next() / last() do not give items {} and the final one", k, k));
        }
        let st: Vec<G> = mk().step_by(k + 1).copied().collect();
        let est: Vec<G> = exp.iter().step_by(k + 1).copied().collect();
        if st != est {
            return Some(format!("step_by({}) does not list every {}-th item", k + 1, k + 1));
        }
    }
    None
}

fn check_views<G: CurveTag>(
    gens: &BulletproofGens<G>,
    cap: usize,
    parties: usize,
    views: &[(usize, usize)],
    what: &dyn Fn(String) -> serde_json::Value,
) -> Result<(), Failure> {
    if gens.gens_capacity != cap || gens.party_capacity != parties {
        return Err(Failure::new("C12:capacity-fields", format!("gens_capacity/party_capacity = {}/{} (expected {}/{})", gens.gens_capacity, gens.party_capacity, cap, parties), what("fields".into())));
    }
    for (n, m) in views {
        for (kind, name) in [(b'G', "G"), (b'H', "H")] {
            let got: Result<Vec<G>, String> = guarded(|| if kind == b'G' { gens.G(*n, *m).cloned().collect() } else { gens.H(*n, *m).cloned().collect() });
            let got = match got {
                Ok(g) => g,
                Err(p) => return Err(Failure::new(format!("C12:view-panic:{}", name), format!("{}({}, {}) panicked: {}", name, n, m, p), what(format!("{}({},{})", name, n, m)))),
            };
            let exp = flat_ref::<G>(kind, *n, *m);
            if got.len() != exp.len() {
                return Err(Failure::new(
                    format!("C12:view-length:{}", name),
                    format!("{}({}, {}) yields {} generators, expected {} (first n of the first m parties)", name, n, m, got.len(), exp.len()),
                    what(format!("{}({},{})", name, n, m)),
                ));
            }
            if let Some(i) = (0..got.len()).find(|i| got[*i] != exp[*i]) {
                return Err(Failure::new(
                    format!("C12:view-value:{}", name),
                    format!("{}({}, {})[{}] (party {}, index {}) differs from the history-free derivation", name, n, m, i, i / (*n).max(1), i % (*n).max(1)),
                    what(format!("{}({},{})", name, n, m)),
                ));
            }
            // the same listing through the other ways an iterator is consumed: positional access,
            // skipping, striding, counting, folding from the back of the call chain
            let len = exp.len();
            let mk = || -> Box<dyn Iterator<Item = &G> + '_> { if kind == b'G' { Box::new(gens.G(*n, *m)) } else { Box::new(gens.H(*n, *m)) } };
            let probes: Vec<usize> = vec![0, 1, (*n).saturating_sub(1), *n, *n + 1, 2 * *n, 2 * *n + 1, 3 * *n, len.saturating_sub(1), len, len / 2, (len * 2) / 3 + 1];
            for k in probes {
                let r: Result<Option<String>, String> = guarded(|| {
                    let mut it = mk();
                    let (lo, hi) = it.size_hint();
                    if lo > len || hi.map(|h| h < len).unwrap_or(false) {
                        return Some(format!("size_hint() = ({}, {:?}) for {} items", lo, hi, len));
                    }
                    let got = it.nth(k).copied();
                    if got != exp.get(k).copied() {
                        return Some(format!("nth({}) is not item {} of the listing", k, k));
                    }
                    let nxt = it.next().copied();
                    if k < len && nxt != exp.get(k + 1).copied() {
                        return Some(format!("next() after nth({}) is not item {}", k, k + 1));
                    }
                    let sk: Vec<G> = mk().skip(k).copied().collect();
                    if sk[..] != exp[k.min(len)..] {
                        return Some(format!("skip({}) does not list items {}.. ", k, k));
                    }
                    let st: Vec<G> = mk().step_by(k + 1).copied().collect();
                    let est: Vec<G> = exp.iter().step_by(k + 1).copied().collect();
                    if st != est {
                        return Some(format!("step_by({}) does not list every {}-th item", k + 1, k + 1));
                    }
                    // partly consumed, then finished by the folding consumers
                    {
                        let mut it3 = mk();
                        let _ = it3.nth(k);
                        let rest = exp.len().saturating_sub(k + 1);
                        if it3.count() != rest {
                            return Some(format!("count() after nth({}) is not {}", k, rest));
                        }
                        let mut it4 = mk();
                        let _ = it4.next();
                        let mut seen: Vec<G> = vec![];
                        it4.for_each(|p| seen.push(*p));
                        if seen[..] != exp[1.min(len)..] {
                            return Some("for_each after one next() does not visit the remaining items".to_string());
                        }
                        let mut it5 = mk().skip(k);
                        let _ = it5.next();
                        let l = it5.last().copied();
                        let want = if k + 1 < len { exp.last().copied() } else { None };
                        if l != want {
                            return Some(format!("last() after skip({}) and one next() is not the final item", k));
                        }
                        let mut it6 = mk();
                        let _ = it6.nth(k);
                        let folded = it6.fold(0usize, |a, _| a + 1);
                        if folded != rest {
                            return Some(format!("fold after nth({}) visits {} items instead of {}", k, folded, rest));
                        }
                    }
                    // nth twice: positions k and 2k+1
                    let mut it2 = mk();
                    let _ = it2.nth(k);
                    if it2.nth(k).copied() != exp.get(2 * k + 1).copied() {
                        return Some(format!("nth({}) after nth({}) is not item {}", k, k, 2 * k + 1));
                    }
                    None
                });
                match r {
                    Err(p) => return Err(Failure::new(format!("C12:view-panic:{}", name), format!("{}({}, {}) consumed with nth/skip/step_by({}) panicked: {}", name, n, m, k, p), what(format!("{}({},{})", name, n, m)))),
                    Ok(Some(msg)) => return Err(Failure::new(format!("C12:view-adaptor:{}", name), format!("{}({}, {}): {}", name, n, m, msg), what(format!("{}({},{})", name, n, m)))),
                    Ok(None) => {}
                }
            }
            let conc = guarded(|| if kind == b'G' { concrete_checks::<G, _>(&|| gens.G(*n, *m), &exp, *n) } else { concrete_checks::<G, _>(&|| gens.H(*n, *m), &exp, *n) });
            match conc {
                Err(p) => return Err(Failure::new(format!("C12:view-panic:{}", name), format!("{}({}, {}) consumed through its own type panicked: {}", name, n, m, p), what(format!("{}({},{})", name, n, m)))),
                Ok(Some(msg)) => return Err(Failure::new(format!("C12:view-adaptor:{}", name), format!("{}({}, {}): {}", name, n, m, msg), what(format!("{}({},{})", name, n, m)))),
                Ok(None) => {}
            }
            let cnt = guarded(|| (mk().count(), mk().last().copied()));
            if let Ok((c, l)) = cnt {
                if c != len || l != exp.last().copied() {
                    return Err(Failure::new(format!("C12:view-adaptor:{}", name), format!("{}({}, {}): count() = {} / last() differs (expected {} items)", name, n, m, c, len), what(format!("{}({},{})", name, n, m))));
                }
            }
        }
    }
    Ok(())
}

pub fn case<G: CurveTag>(bytes: &[u8], col: &mut Collector, cmax: usize) -> Result<(), Failure> {
    let mut ch = Choices::new(bytes);
    let parties = 1 + ch.weighted(&[40, 30, 20, 10]);
    let c0 = ch.below(cmax + 1);
    let nsteps = ch.below(7);
    let mut steps = vec![];
    let mut top = c0;
    for _ in 0..nsteps {
        let c = match ch.below(5) {
            0 => steps.last().copied().unwrap_or(c0), // repeated value
            1 => ch.below(c0 + 1),                     // not larger
            2 => (top + 1 + ch.below(8)).min(cmax.max(top)), // a little beyond everything so far
            _ => ch.below(cmax + 1),
        };
        top = top.max(c);
        steps.push(c);
    }
    let roundtrip_at = if ch.chance(90) { Some(ch.below(nsteps + 1)) } else { None };
    // the object is overwritten in place (`clone_from`) with a freshly made one of another size
    let clone_from_at: Option<(usize, usize)> = if ch.chance(50) { Some((ch.below(nsteps + 1), ch.below(cmax / 2 + 1))) } else { None };
    // the caller narrows the object to its first p' parties by lowering the public field; later
    // increases then concern those parties only
    let lower_at: Option<(usize, usize)> = if parties >= 2 && clone_from_at.is_none() && ch.chance(36) { Some((ch.below(nsteps + 1), 1 + ch.below(parties - 1))) } else { None };
    let desc = |s: String| json!({"curve": G::CURVE.name(), "new": [c0, parties], "increase_capacity": steps, "roundtrip_after_step": roundtrip_at, "clone_from_after_step": clone_from_at, "party_capacity_lowered_after_step": lower_at, "at": s});
    let mut parties = parties;
    let mut gens = match guarded(|| BulletproofGens::<G>::new(c0, parties)) {
        Ok(g) => g,
        Err(p) => return Err(Failure::new("C12:new-panic", format!("BulletproofGens::new({}, {}) panicked: {}", c0, parties, p), desc("new".into()))),
    };
    let mut cap = c0;
    let mut real_increase = 0;
    for step in 0..=nsteps {
        if step > 0 {
            let c = steps[step - 1];
            if let Err(p) = guarded(|| gens.increase_capacity(c)) {
                return Err(Failure::new("C12:increase-panic", format!("increase_capacity({}) panicked: {}", c, p), desc(format!("step {}", step))));
            }
            if c > cap {
                cap = c;
                real_increase += 1;
            }
        }
        if let Some((at, small)) = clone_from_at {
            if at == step {
                let r = guarded(|| {
                    let src = BulletproofGens::<G>::new(small, parties);
                    gens.clone_from(&src);
                    let copy = gens.clone();
                    let (mut a, mut b) = (vec![], vec![]);
                    copy.serialize_compressed(&mut a).unwrap();
                    src.serialize_compressed(&mut b).unwrap();
                    a == b
                });
                match r {
                    Err(p) => return Err(Failure::new("C12:clone-panic", format!("clone_from / clone panicked: {}", p), desc(format!("step {}", step)))),
                    Ok(false) => return Err(Failure::new("C12:clone-from", format!("after clone_from(new({}, {})) the object does not serialise like its source", small, parties), desc(format!("step {}", step)))),
                    Ok(true) => {}
                }
                cap = small;
                col.class("clone_from");
            }
        }
        if roundtrip_at == Some(step) {
            let mut b = vec![];
            gens.serialize_compressed(&mut b).unwrap();
            let back = BulletproofGens::<G>::deserialize_compressed(&b[..]);
            match back {
                Ok(g2) => {
                    let mut b2 = vec![];
                    g2.serialize_compressed(&mut b2).unwrap();
                    if b2 != b {
                        return Err(Failure::new("C12:roundtrip-bytes", "serialize(deserialize(serialize(gens))) differs", desc(format!("step {}", step))));
                    }
                    gens = g2;
                }
                Err(e) => return Err(Failure::new("C12:roundtrip-decode", format!("deserialize(serialize(gens)) failed: {:?}", e), desc(format!("step {}", step)))),
            }
        }
        if let Some((at, pl)) = lower_at {
            if at == step {
                gens.party_capacity = pl;
                parties = pl;
                col.class("party-capacity-lowered");
            }
        }
        // views: the full one, empty ones, and generated ones
        let mut views = vec![(cap, parties), (0, parties), (cap, 0)];
        for _ in 0..3 {
            views.push((ch.below(cap + 1), ch.below(parties + 1)));
        }
        if cap > 0 {
            views.push((1, parties));
            views.push((cap - 1, parties));
        }
        check_views::<G>(&gens, cap, parties, &views, &|s| desc(format!("step {} view {}", step, s)))?;
    }
    col.class(&format!("parties={}", parties));
    if real_increase > 0 {
        col.class("real-increase");
    }
    if real_increase > 1 {
        col.class("several-increases");
    }
    if steps.iter().any(|c| *c <= c0) {
        col.class("non-increasing-step");
    }
    if roundtrip_at.is_some() {
        col.class("serialization-roundtrip");
    }
    if c0 == 0 {
        col.class("initial-capacity-0");
    }
    let nt = real_increase > 0 || parties >= 2;
    if nt {
        col.nontrivial(fp_of(&(G::CURVE, c0, parties, steps.clone(), roundtrip_at)));
    }
    col.sample(nt, || desc("ok".into()));
    Ok(())
}

/// distinctness, subgroup membership, Pedersen bases and pinned digests (once per run and curve)
fn static_checks<G: CurveTag>(col: &mut Collector, count: usize, beyond_u16: bool) -> Vec<Failure> {
    let mut out = vec![];
    let parties = fixtures::GEN_PARTIES;
    let gens = BulletproofGens::<G>::new(count, parties);
    let pc = PedersenGens::<G>::default();
    let mut all: Vec<(String, G)> = vec![("B".into(), pc.B), ("B_blinding".into(), pc.B_blinding)];
    let gv: Vec<G> = gens.G(count, parties).cloned().collect();
    let hv: Vec<G> = gens.H(count, parties).cloned().collect();
    for (i, p) in gv.iter().enumerate() {
        all.push((format!("G[{}][{}]", i / count, i % count), *p));
    }
    for (i, p) in hv.iter().enumerate() {
        all.push((format!("H[{}][{}]", i / count, i % count), *p));
    }
    let what = |s: &str| json!({"curve": G::CURVE.name(), "point": s});
    let mut seen: HashSet<Vec<u8>> = HashSet::new();
    for (name, p) in &all {
        col.eval();
        if !seen.insert(enc(p)) {
            out.push(Failure::new("C12:duplicate", format!("{} equals another generator", name), what(name)));
        }
        if p.is_zero() {
            out.push(Failure::new("C12:identity", format!("{} is the identity", name), what(name)));
            continue;
        }
        // decodes under full validation = on curve and in the prime-order subgroup
        let valid = G::deserialize_compressed(&enc(p)[..]).is_ok();
        let r_p = p.mul_bigint(<G::ScalarField as PrimeField>::MODULUS);
        if !valid || !ark_std::Zero::is_zero(&r_p) {
            out.push(Failure::new("C12:subgroup", format!("{} is not a member of the prime-order subgroup", name), what(name)));
        }
        col.nontrivial(fp_of(&(G::CURVE, name)));
    }
    // many parties: the party index is a 32-bit quantity in the derivation
    let (wide_parties, wide_n) = if count > 64 || beyond_u16 { (65600usize, 1usize) } else { (300usize, 2usize) };
    let wide = BulletproofGens::<G>::new(wide_n, wide_parties);
    let wg: Vec<G> = wide.G(wide_n, wide_parties).cloned().collect();
    let wh: Vec<G> = wide.H(wide_n, wide_parties).cloned().collect();
    let mut seen_wide: HashSet<Vec<u8>> = HashSet::new();
    for j in (0..wide_parties).filter(|j| wide_parties <= 300 || *j < 300 || *j >= 65500 || count > 64) {
        col.eval();
        let eg = refgens::gens_uncached::<G>(b'G', j as u32, wide_n);
        let eh = refgens::gens_uncached::<G>(b'H', j as u32, wide_n);
        if wg[j * wide_n..(j + 1) * wide_n] != eg[..] || wh[j * wide_n..(j + 1) * wide_n] != eh[..] {
            out.push(Failure::new("C12:many-parties-value", format!("generators of party {} (of {}) differ from the history-free derivation", j, wide_parties), what(&format!("party {}", j))));
            break;
        }
        for p in wg[j * wide_n..(j + 1) * wide_n].iter().chain(wh[j * wide_n..(j + 1) * wide_n].iter()) {
            if !seen_wide.insert(enc(p)) {
                out.push(Failure::new("C12:many-parties-duplicate", format!("a generator of party {} repeats a generator of an earlier party", j), what(&format!("party {}", j))));
                break;
            }
        }
        if j >= 256 {
            col.nontrivial(fp_of(&(G::CURVE, "wide", j)));
        }
    }
    col.class("many-parties");
    // one party, far along the chain (thorough tier: every curve; quick tier: the rotating curve):
    // one step to beyond 2^17 generators, and the same capacity reached from a small object
    if count > 64 || beyond_u16 {
        let deep_n = 131_072 + 130;
        let eg = refgens::gens_uncached::<G>(b'G', 0, deep_n);
        let eh = refgens::gens_uncached::<G>(b'H', 0, deep_n);
        let direct = BulletproofGens::<G>::new(deep_n, 1);
        let mut grown = BulletproofGens::<G>::new(100, 1);
        grown.increase_capacity(deep_n);
        for (name, g) in [("new(131202, 1)", &direct), ("new(100, 1) + increase_capacity(131202)", &grown)] {
            col.evals_add(2);
            let gg: Vec<G> = g.G(deep_n, 1).cloned().collect();
            let hh: Vec<G> = g.H(deep_n, 1).cloned().collect();
            if let Some(i) = (0..deep_n).find(|i| gg.get(*i) != Some(&eg[*i]) || hh.get(*i) != Some(&eh[*i])) {
                out.push(Failure::new("C12:deep-chain-value", format!("{}: generator {} differs from the history-free derivation", name, i), what(&format!("index {}", i))));
            }
        }
        col.class("deep-chain(>2^17)");
        if count > 64 && G::CURVE == Curve::Zorro {
            // growing an object that already holds more than 2^18 generators (thorough tier, one curve)
            let (d1, d2) = (262_144 + 9, 262_144 + 40);
            let e2g = refgens::gens_uncached::<G>(b'G', 0, d2);
            let e2h = refgens::gens_uncached::<G>(b'H', 0, d2);
            let mut big = BulletproofGens::<G>::new(d1, 1);
            big.increase_capacity(d2);
            let gg: Vec<G> = big.G(d2, 1).cloned().collect();
            let hh: Vec<G> = big.H(d2, 1).cloned().collect();
            col.evals_add(2);
            if let Some(i) = (0..d2).find(|i| gg.get(*i) != Some(&e2g[*i]) || hh.get(*i) != Some(&e2h[*i])) {
                out.push(Failure::new("C12:deep-chain-value", format!("new({}, 1) + increase_capacity({}): generator {} differs from the history-free derivation", d1, d2, i), what(&format!("index {}", i))));
            }
            col.class("deep-chain(>2^18)");
        }
    }
    // one call that makes more than 2^20 generators over a party count that is not a multiple of 8
    // (thorough tier, one curve): any internal partitioning of the work must not show
    if count > 64 && G::CURVE == Curve::Secq {
        let (pn, pm) = (17usize, 65_601usize);
        let big = BulletproofGens::<G>::new(pn, pm);
        let bg: Vec<G> = big.G(pn, pm).cloned().collect();
        let bh: Vec<G> = big.H(pn, pm).cloned().collect();
        for j in (0..pm).filter(|j| *j < 40 || *j % 997 == 0 || (8190..8215).contains(j) || *j >= pm - 40) {
            col.eval();
            let eg = refgens::gens_uncached::<G>(b'G', j as u32, pn);
            let eh = refgens::gens_uncached::<G>(b'H', j as u32, pn);
            if bg[j * pn..(j + 1) * pn] != eg[..] || bh[j * pn..(j + 1) * pn] != eh[..] {
                out.push(Failure::new("C12:many-parties-value", format!("new({}, {}): generators of party {} differ from the history-free derivation", pn, pm, j), what(&format!("party {}", j))));
                break;
            }
        }
        col.class("more-than-2^20-generators-in-one-call");
    }
    // Pedersen bases as documented
    let (b, bb) = refgens::pedersen::<G>();
    if pc.B != b || pc.B != G::generator() {
        out.push(Failure::new("C12:pedersen-B", "PedersenGens::default().B is not the curve generator", what("B")));
    }
    if pc.B_blinding != bb {
        out.push(Failure::new("C12:pedersen-B_blinding", "PedersenGens::default().B_blinding differs from the documented derivation", what("B_blinding")));
    }
    // pinned digests of the reference revision
    match fixtures::load("generators.json") {
        None => col.note("fixtures/generators.json missing: pinned digests not evaluated"),
        Some(fx) => {
            let f = &fx[G::CURVE.name()];
            let n = fixtures::GEN_COUNT.min(count);
            if n == fixtures::GEN_COUNT {
                for j in 0..parties {
                    let dg = digest_points(&gv[j * count..j * count + n]);
                    let dh = digest_points(&hv[j * count..j * count + n]);
                    if Some(dg.as_str()) != f["G_digest_per_party"][j].as_str() {
                        out.push(Failure::new("C12:pinned-G", format!("digest of G generators of party {} differs from the reference revision", j), what("G")));
                    }
                    if Some(dh.as_str()) != f["H_digest_per_party"][j].as_str() {
                        out.push(Failure::new("C12:pinned-H", format!("digest of H generators of party {} differs from the reference revision", j), what("H")));
                    }
                }
            }
            if Some(hex::encode(enc(&pc.B)).as_str()) != f["B"].as_str() {
                out.push(Failure::new("C12:pinned-B", "Pedersen value base differs from the reference revision", what("B")));
            }
            if Some(hex::encode(enc(&pc.B_blinding)).as_str()) != f["B_blinding"].as_str() {
                out.push(Failure::new("C12:pinned-B_blinding", "Pedersen blinding base differs from the reference revision", what("B_blinding")));
            }
            col.class("pinned-digests-compared");
        }
    }
    out
}

/// digest printed by a child process (`verif-harness gens-digest <curve> <cap> <parties>`)
pub fn digest_cli(curve: &str, cap: usize, parties: usize) -> String {
    let c = Curve::from_name(curve).expect("curve");
    with_curve!(c, G => {
        let gens = BulletproofGens::<G>::new(cap, parties);
        let g: Vec<G> = gens.G(cap, parties).cloned().collect();
        let h: Vec<G> = gens.H(cap, parties).cloned().collect();
        let pc = PedersenGens::<G>::default();
        format!("{}:{}:{}", digest_points(&g), digest_points(&h), digest_points(&[pc.B, pc.B_blinding]))
    })
}

fn dispatch(sub: &str, bytes: &[u8], col: &mut Collector) -> Result<(), Failure> {
    let mut it = sub.split('/');
    let _ = it.next();
    let curve = Curve::from_name(it.next().unwrap_or("")).unwrap_or(Curve::Secq);
    let cmax: usize = it.next().and_then(|s| s.parse().ok()).unwrap_or(48);
    with_curve!(curve, G => case::<G>(bytes, col, cmax))
}

pub fn replay(sub: &str, bytes: &[u8], col: &mut Collector) -> Result<(), Failure> {
    dispatch(sub, bytes, col)
}

pub fn run(tier: &str, seed: u64) -> i32 {
    let mut rep = Report::new("C12", tier, seed);
    rep.rule = "histories new(c0, p) + 0..6 increase_capacity(c) (repeated / smaller / larger values), optional serialization round-trip at any point, views (n, m) incl. n = 0 and m = 0 after every step, compared with a history-free reference derivation; plus pairwise distinctness / subgroup membership / Pedersen bases / pinned digests and a cross-process digest; non-trivial = history with a real increase or ≥ 2 parties; distinct = the history itself".into();
    rep.assumptions = vec![
        "the reference derivation shares the curve's point sampler (G::rand over ChaCha) with the code under test; labels, hashing and chain walking are independent".into(),
        "pinned digests come from the frozen reference revision b4846a6 (fixtures/generators.json)".into(),
    ];
    let cmax = super::scale(tier, 48, 300) as usize;
    let n = super::scale(tier, 1500, 8000);
    for c in Curve::ALL {
        let mut col = Collector::default();
        let beyond = tier == "thorough" || c == Curve::ALL[(seed % 3) as usize];
        let fails = with_curve!(c, G => static_checks::<G>(&mut col, if tier == "thorough" { 256 } else { 64 }, beyond));
        rep.outcome.stats.merge(col);
        for f in fails {
            rep.outcome.found.push(Found { failure: f, bytes: None, sub: format!("c12/static/{}", c.name()) });
        }
        // another OS process must derive the same generators
        let exe = std::env::current_exe().unwrap();
        let child = std::process::Command::new(exe).args(["gens-digest", c.name(), "33", "3"]).output();
        match child {
            Ok(o) if o.status.success() => {
                let theirs = String::from_utf8_lossy(&o.stdout).trim().to_string();
                let ours = digest_cli(c.name(), 33, 3);
                rep.outcome.stats.eval();
                if theirs != ours {
                    rep.outcome.found.push(Found {
                        failure: Failure::new("C12:cross-process", "generators differ between two processes", json!({"curve": c.name(), "ours": ours, "theirs": theirs})),
                        bytes: None,
                        sub: "c12/process".into(),
                    });
                }
                rep.outcome.stats.class("cross-process-digest-compared");
            }
            _ => rep.outcome.stats.note("child process could not be run: cross-process comparison not evaluated"),
        }
        if !rep.outcome.found.is_empty() {
            break;
        }
        let sub = format!("c12/{}/{}", c.name(), cmax);
        rep.outcome.merge(replay_corpus("C12", &sub, &|b, col| dispatch(&sub, b, col)));
        rep.outcome.merge(search(&sub, seed, n, 64, &|b, col| dispatch(&sub, b, col)));
    }
    for c in ["real-increase", "several-increases", "non-increasing-step", "serialization-roundtrip", "parties=3"] {
        rep.required_classes.push((c.to_string(), 0.01));
    }
    rep.finish()
}
