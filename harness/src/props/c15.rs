//! C15 — linear-combination arithmetic preserves meaning.
use crate::choices::Choices;
use crate::curves::{Curve, CurveTag};
use crate::drive::{bp_gens, guarded, pc_gens, CountingRng};
use crate::runner::{fp_of, replay_corpus, search, Collector, Failure, Report};
use crate::scalars::ScalarSpec;
use crate::with_curve;
use ark_bulletproofs::r1cs::{ConstraintSystem, LinearCombination, Prover, R1CSError, Variable, Verifier};
use ark_ec::AffineRepr;
use ark_ff::{One, Zero};
use merlin::Transcript;
use serde_json::{json, Value};
use std::collections::BTreeMap;

type Fr<G> = <G as AffineRepr>::ScalarField;

/// index into the fixed context: 0,1 commitments; 2..4 gate0 (l, r, o); 5..7 gate1; 8,9 the
/// `allocate` pair (left, right); 10 the constant one
const NV: usize = 11;
const VNAMES: [&str; NV] = ["V0", "V1", "L0", "R0", "O0", "L1", "R1", "O1", "L2", "R2", "One"];

#[derive(Clone, Debug, PartialEq, Eq, Hash)]
pub enum E {
    // leaves
    Var(usize),
    Const(ScalarSpec),
    Default,
    FromIterOwned(Vec<(usize, ScalarSpec)>),
    FromIterRef(Vec<(usize, ScalarSpec)>),
    /// a long running sum: starting from the empty combination, `n` steps of `acc ± term`,
    /// `acc ± variable`, `acc ± constant` drawn from a small pseudo-random stream
    Chain(usize, u64),
    /// a term over `Variable::Phantom` (stands for no wire: value zero)
    PhantomTerm(ScalarSpec),
    // operators on Variable
    VarNeg(usize),
    VarMul(usize, ScalarSpec),
    VarMulU64(usize, u64),
    VarAdd(usize, Box<E>),
    VarSub(usize, Box<E>),
    VarAddVar(usize, usize),
    VarSubVar(usize, usize),
    VarAddConst(usize, ScalarSpec),
    VarSubConst(usize, ScalarSpec),
    // operators on LinearCombination
    Neg(Box<E>),
    Mul(Box<E>, ScalarSpec),
    MulU64(Box<E>, u64),
    Add(Box<E>, Box<E>),
    Sub(Box<E>, Box<E>),
    AddVar(Box<E>, usize),
    SubVar(Box<E>, usize),
    AddConst(Box<E>, ScalarSpec),
    SubConst(Box<E>, ScalarSpec),
}

impl E {
    fn name(&self) -> &'static str {
        match self {
            E::Var(_) => "From<Variable>",
            E::Const(_) => "From<F>",
            E::Default => "Default",
            E::FromIterOwned(_) => "FromIterator(owned)",
            E::FromIterRef(_) => "FromIterator(&)",
            E::Chain(..) => "long-running-sum",
            E::PhantomTerm(_) => "Phantom*F",
            E::VarNeg(_) => "-Var",
            E::VarMul(..) => "Var*F",
            E::VarMulU64(..) => "Var*u64",
            E::VarAdd(..) => "Var+Lc",
            E::VarSub(..) => "Var-Lc",
            E::VarAddVar(..) => "Var+Var",
            E::VarSubVar(..) => "Var-Var",
            E::VarAddConst(..) => "Var+F",
            E::VarSubConst(..) => "Var-F",
            E::Neg(_) => "-Lc",
            E::Mul(..) => "Lc*F",
            E::MulU64(..) => "Lc*u64",
            E::Add(..) => "Lc+Lc",
            E::Sub(..) => "Lc-Lc",
            E::AddVar(..) => "Lc+Var",
            E::SubVar(..) => "Lc-Var",
            E::AddConst(..) => "Lc+F",
            E::SubConst(..) => "Lc-F",
        }
    }
    fn nodes(&self, hist: &mut BTreeMap<&'static str, u64>) -> usize {
        *hist.entry(self.name()).or_insert(0) += 1;
        1 + match self {
            E::VarAdd(_, a) | E::VarSub(_, a) | E::Neg(a) | E::Mul(a, _) | E::MulU64(a, _) | E::AddVar(a, _) | E::SubVar(a, _) | E::AddConst(a, _) | E::SubConst(a, _) => a.nodes(hist),
            E::Add(a, b) | E::Sub(a, b) => a.nodes(hist) + b.nodes(hist),
            _ => 0,
        }
    }
    fn show(&self) -> String {
        let v = |i: &usize| VNAMES[*i].to_string();
        let terms = |t: &Vec<(usize, ScalarSpec)>| if t.len() > 12 { format!("{} terms", t.len()) } else { t.iter().map(|(i, c)| format!("({},{})", v(i), c.short())).collect::<Vec<_>>().join(",") };
        match self {
            E::Var(i) => format!("Lc::from({})", v(i)),
            E::Const(c) => format!("Lc::from({})", c.short()),
            E::Default => "Lc::default()".into(),
            E::FromIterOwned(t) => format!("collect([{}])", terms(t)),
            E::FromIterRef(t) => format!("collect(&[{}])", terms(t)),
            E::Chain(n, sd) => format!("running-sum({} steps, stream {})", n, sd),
            E::PhantomTerm(c) => format!("Phantom*{}", c.short()),
            E::VarNeg(i) => format!("-{}", v(i)),
            E::VarMul(i, c) => format!("{}*{}", v(i), c.short()),
            E::VarMulU64(i, c) => format!("{}*{}u64", v(i), c),
            E::VarAdd(i, a) => format!("{}+({})", v(i), a.show()),
            E::VarSub(i, a) => format!("{}-({})", v(i), a.show()),
            E::VarAddVar(i, j) => format!("{}+{}", v(i), v(j)),
            E::VarSubVar(i, j) => format!("{}-{}", v(i), v(j)),
            E::VarAddConst(i, c) => format!("{}+{}", v(i), c.short()),
            E::VarSubConst(i, c) => format!("{}-{}", v(i), c.short()),
            E::Neg(a) => format!("-({})", a.show()),
            E::Mul(a, c) => format!("({})*{}", a.show(), c.short()),
            E::MulU64(a, c) => format!("({})*{}u64", a.show(), c),
            E::Add(a, b) => format!("({})+({})", a.show(), b.show()),
            E::Sub(a, b) => format!("({})-({})", a.show(), b.show()),
            E::AddVar(a, i) => format!("({})+{}", a.show(), v(i)),
            E::SubVar(a, i) => format!("({})-{}", a.show(), v(i)),
            E::AddConst(a, c) => format!("({})+{}", a.show(), c.short()),
            E::SubConst(a, c) => format!("({})-{}", a.show(), c.short()),
        }
    }
    /// the field expression the tree spells, evaluated under the assignment
    fn eval<F: ark_ff::PrimeField>(&self, a: &[F]) -> F {
        match self {
            E::Var(i) => a[*i],
            E::Const(c) => c.to_f(),
            E::Default => F::zero(),
            E::FromIterOwned(t) | E::FromIterRef(t) => t.iter().map(|(i, c)| a[*i] * c.to_f::<F>()).sum(),
            E::Chain(n, sd) => chain_steps(*n, *sd).map(|(op, i, c)| {
                let c: F = F::from(c);
                match op {
                    0 => a[i] * c,
                    1 => -(a[i] * c),
                    2 => a[i],
                    3 => -a[i],
                    4 => c,
                    _ => -c,
                }
            }).sum(),
            E::PhantomTerm(_) => F::zero(),
            E::VarNeg(i) => -a[*i],
            E::VarMul(i, c) => a[*i] * c.to_f::<F>(),
            E::VarMulU64(i, c) => a[*i] * F::from(*c),
            E::VarAdd(i, x) => a[*i] + x.eval(a),
            E::VarSub(i, x) => a[*i] - x.eval(a),
            E::VarAddVar(i, j) => a[*i] + a[*j],
            E::VarSubVar(i, j) => a[*i] - a[*j],
            E::VarAddConst(i, c) => a[*i] + c.to_f::<F>(),
            E::VarSubConst(i, c) => a[*i] - c.to_f::<F>(),
            E::Neg(x) => -x.eval(a),
            E::Mul(x, c) => x.eval(a) * c.to_f::<F>(),
            E::MulU64(x, c) => x.eval(a) * F::from(*c),
            E::Add(x, y) => x.eval(a) + y.eval(a),
            E::Sub(x, y) => x.eval(a) - y.eval(a),
            E::AddVar(x, i) => x.eval(a) + a[*i],
            E::SubVar(x, i) => x.eval(a) - a[*i],
            E::AddConst(x, c) => x.eval(a) + c.to_f::<F>(),
            E::SubConst(x, c) => x.eval(a) - c.to_f::<F>(),
        }
    }
    /// the same tree built with the crate's own operator impls
    fn build<F: ark_ff::PrimeField>(&self, v: &[Variable<F>]) -> LinearCombination<F> {
        match self {
            E::Var(i) => LinearCombination::from(v[*i]),
            E::Const(c) => LinearCombination::from(c.to_f::<F>()),
            E::Default => LinearCombination::default(),
            E::FromIterOwned(t) => {
                // the term list reaches `collect` through iterators of different kinds, also ones
                // whose size hint is not exact
                let owned: Vec<(Variable<F>, F)> = t.iter().map(|(i, c)| (v[*i], c.to_f::<F>())).collect();
                match t.len() % 5 {
                    0 => owned.into_iter().collect(),
                    1 => owned.into_iter().filter(|_| true).collect(),
                    2 => owned.into_iter().flat_map(|x| Some(x)).collect(),
                    3 => {
                        let mut it = owned.into_iter();
                        let first = it.next();
                        first.into_iter().chain(it.skip_while(|_| false)).collect()
                    }
                    _ => {
                        let mut it = owned.into_iter();
                        std::iter::from_fn(move || it.next()).collect()
                    }
                }
            }
            E::FromIterRef(t) => {
                let owned: Vec<(Variable<F>, F)> = t.iter().map(|(i, c)| (v[*i], c.to_f::<F>())).collect();
                match t.len() % 3 {
                    0 => owned.iter().collect(),
                    1 => owned.iter().filter(|_| true).collect(),
                    _ => owned.iter().take_while(|_| true).collect(),
                }
            }
            E::Chain(n, sd) => chain_steps(*n, *sd).fold(LinearCombination::default(), |acc, (op, i, c)| {
                let c: F = F::from(c);
                match op {
                    0 => acc + v[i] * c,
                    1 => acc - v[i] * c,
                    2 => acc + v[i],
                    3 => acc - v[i],
                    4 => acc + c,
                    _ => acc - c,
                }
            }),
            E::PhantomTerm(c) => Variable::Phantom(std::marker::PhantomData) * c.to_f::<F>(),
            E::VarNeg(i) => -v[*i],
            E::VarMul(i, c) => v[*i] * c.to_f::<F>(),
            E::VarMulU64(i, c) => v[*i] * *c,
            E::VarAdd(i, x) => v[*i] + x.build(v),
            E::VarSub(i, x) => v[*i] - x.build(v),
            E::VarAddVar(i, j) => v[*i] + v[*j],
            E::VarSubVar(i, j) => v[*i] - v[*j],
            E::VarAddConst(i, c) => v[*i] + c.to_f::<F>(),
            E::VarSubConst(i, c) => v[*i] - c.to_f::<F>(),
            E::Neg(x) => -x.build(v),
            E::Mul(x, c) => x.build(v) * c.to_f::<F>(),
            E::MulU64(x, c) => x.build(v) * *c,
            E::Add(x, y) => x.build(v) + y.build(v),
            E::Sub(x, y) => x.build(v) - y.build(v),
            E::AddVar(x, i) => x.build(v) + v[*i],
            E::SubVar(x, i) => x.build(v) - v[*i],
            E::AddConst(x, c) => x.build(v) + c.to_f::<F>(),
            E::SubConst(x, c) => x.build(v) - c.to_f::<F>(),
        }
    }
}

thread_local! {
    /// added (mod NV) to every variable index the tree generator draws: the same choices give
    /// the same expression over other variables
    static VOFF: std::cell::Cell<usize> = std::cell::Cell::new(0);
}

fn var_ix(ch: &mut Choices) -> usize {
    (ch.below(NV) + VOFF.with(|v| v.get())) % NV
}

/// (operation, variable index, small coefficient) for each step of a running sum; the variable
/// sequence favours runs, returns to earlier variables, and ends on any of them
fn chain_steps(n: usize, sd: u64) -> impl Iterator<Item = (u8, usize, u64)> {
    let mut x: u64 = 0x2545_f491_4f6c_dd1d ^ sd.wrapping_mul(0x9e37_79b9_7f4a_7c15);
    (0..n).map(move |_| {
        x ^= x << 13;
        x ^= x >> 7;
        x ^= x << 17;
        let op = [0u8, 0, 0, 1, 1, 2, 3, 4, 5][(x >> 8) as usize % 9];
        let var = (x >> 16) as usize % NV;
        let c = 1 + (x >> 32) % 97;
        (op, var, c)
    })
}

/// term lists whose coefficients form a geometric progression c, c·k, c·k², … (bit weights and the
/// like), to be scaled by the ratio k afterwards
fn gen_geometric(ch: &mut Choices) -> (Vec<(usize, ScalarSpec)>, ScalarSpec) {
    let k = 2 + ch.below(4) as u64;
    let n = 2 + ch.below(5);
    let c0 = 1 + ch.below(3) as u64;
    let same_var = ch.chance(60);
    let v0 = var_ix(ch);
    let mut c = c0;
    let mut t = vec![];
    for j in 0..n {
        t.push((if same_var { v0 } else { (v0 + j) % NV }, ScalarSpec::Small(c)));
        c *= k;
    }
    (t, ScalarSpec::Small(k))
}

fn gen_terms(ch: &mut Choices) -> Vec<(usize, ScalarSpec)> {
    // now and then a very long term list
    let n = if ch.chance(6) { 100 + ch.below(400) } else { ch.below(5) };
    (0..n).map(|_| (var_ix(ch), if ch.chance(30) { ScalarSpec::Zero } else { ScalarSpec::gen(ch) })).collect()
}

fn gen_tree(ch: &mut Choices, depth: usize) -> E {
    let leaf = depth == 0 || ch.chance(70);
    if leaf {
        return match ch.weighted(&[18, 10, 4, 9, 9, 8, 9, 6, 7, 7, 6, 7, 2, 3]) {
            13 => E::PhantomTerm(ScalarSpec::gen_nonzero(ch)),
            12 => {
                let n = match ch.below(if depth == 0 { 4 } else { 5 }) {
                    4 => 65_530 + ch.below(4000),
                    0 => 2 + ch.below(60),
                    1 => 1000 + ch.below(3000),
                    2 => 4090 + ch.below(12),
                    _ => 4097 + ch.below(5000),
                };
                E::Chain(n, ch.u16() as u64)
            }
            0 => E::Var(var_ix(ch)),
            1 => E::Const(ScalarSpec::gen(ch)),
            2 => E::Default,
            3 => E::FromIterOwned(gen_terms(ch)),
            4 => E::FromIterRef(gen_terms(ch)),
            5 => E::VarNeg(var_ix(ch)),
            6 => E::VarMul(var_ix(ch), ScalarSpec::gen(ch)),
            7 => E::VarMulU64(var_ix(ch), ch.byte() as u64),
            8 => E::VarAddVar(var_ix(ch), var_ix(ch)),
            9 => E::VarSubVar(var_ix(ch), var_ix(ch)),
            10 => E::VarAddConst(var_ix(ch), ScalarSpec::gen(ch)),
            _ => E::VarSubConst(var_ix(ch), ScalarSpec::gen(ch)),
        };
    }
    let d = depth - 1;
    if ch.chance(12) {
        // (c·x₀ + c·k·x₁ + c·k²·x₂ + …) · k, also negated / through the u64 operator
        let (t, k) = gen_geometric(ch);
        let inner = if ch.chance(128) { E::FromIterOwned(t) } else { E::FromIterRef(t) };
        return match ch.below(3) {
            0 => E::Mul(Box::new(inner), k),
            1 => E::Neg(Box::new(E::Mul(Box::new(inner), k))),
            _ => match k {
                ScalarSpec::Small(kk) => E::MulU64(Box::new(inner), kk),
                _ => unreachable!(),
            },
        };
    }
    match ch.below(11) {
        0 => E::VarAdd(var_ix(ch), Box::new(gen_tree(ch, d))),
        1 => E::VarSub(var_ix(ch), Box::new(gen_tree(ch, d))),
        2 => E::Neg(Box::new(gen_tree(ch, d))),
        3 => E::Mul(Box::new(gen_tree(ch, d)), ScalarSpec::gen(ch)),
        4 => E::MulU64(Box::new(gen_tree(ch, d)), ch.byte() as u64),
        5 => E::Add(Box::new(gen_tree(ch, d)), Box::new(gen_tree(ch, d))),
        6 => E::Sub(Box::new(gen_tree(ch, d)), Box::new(gen_tree(ch, d))),
        7 => E::AddVar(Box::new(gen_tree(ch, d)), var_ix(ch)),
        8 => E::SubVar(Box::new(gen_tree(ch, d)), var_ix(ch)),
        9 => E::AddConst(Box::new(gen_tree(ch, d)), ScalarSpec::gen(ch)),
        _ => E::SubConst(Box::new(gen_tree(ch, d)), ScalarSpec::gen(ch)),
    }
}

/// the fixed context, built through the public API on either role
fn build_ctx<F: ark_ff::PrimeField, CS: ConstraintSystem<F>>(cs: &mut CS, coms: [Variable<F>; 2], w: Option<&[F]>) -> Result<Vec<Variable<F>>, R1CSError> {
    let (l0, r0, o0) = cs.allocate_multiplier(w.map(|w| (w[2], w[3])))?;
    let (l1, r1, o1) = cs.allocate_multiplier(w.map(|w| (w[5], w[6])))?;
    let l2 = cs.allocate(w.map(|w| w[8]))?;
    let r2 = cs.allocate(w.map(|w| w[9]))?;
    Ok(vec![coms[0], coms[1], l0, r0, o0, l1, r1, o1, l2, r2, Variable::One()])
}

/// the handles `build_ctx` is going to return, spelled by hand (variables may be named in a
/// constraint before they exist: constraints are only flattened when proving / verifying)
fn hand_built<F: ark_ff::PrimeField>() -> Vec<Variable<F>> {
    vec![
        Variable::Committed(0),
        Variable::Committed(1),
        Variable::MultiplierLeft(0),
        Variable::MultiplierRight(0),
        Variable::MultiplierOutput(0),
        Variable::MultiplierLeft(1),
        Variable::MultiplierRight(1),
        Variable::MultiplierOutput(1),
        Variable::MultiplierLeft(2),
        Variable::MultiplierRight(2),
        Variable::One(),
    ]
}

/// prove and verify a circuit whose constraints are `tree_i - c_i`; `when`: 0 constraints after
/// the variables exist (returned handles), 1 before anything exists, 2 between the commitments
/// and the gates, 3 after everything but with hand-built handles
fn circuit_at<G: CurveTag>(w: &[Fr<G>], blinds: &[Fr<G>; 2], cons: &[(&E, Fr<G>)], seed: u64, when: u8) -> Result<Result<(), R1CSError>, String> {
    guarded(|| {
        let pc = pc_gens::<G>();
        let gens = bp_gens::<G>(16, 1);
        let hb = hand_built::<Fr<G>>();
        let (prods, prod_off) = PRODS.with(|p| p.borrow().clone());
        let mut tp = Transcript::new(b"c15");
        let mut prover = Prover::new(&pc, &mut tp);
        if when == 1 {
            for (t, c) in cons {
                prover.constrain(t.build(&hb) - *c);
            }
        }
        let (c0, v0) = prover.commit(w[0], blinds[0]);
        let (c1, v1) = prover.commit(w[1], blinds[1]);
        if when == 2 {
            for (t, c) in cons {
                prover.constrain(t.build(&hb) - *c);
            }
        }
        let vars = build_ctx(&mut prover, [v0, v1], Some(w)).expect("prover context");
        if when == 0 || when == 3 {
            for (t, c) in cons {
                // `expr - c` with the constant passed as a field element (Sub<F>)
                prover.constrain(t.build(if when == 0 { &vars } else { &hb }) - *c);
            }
        }
        for (a, b) in prods.iter().take(4) {
            let (_, _, o) = prover.multiply(a.build(&vars), b.build(&vars));
            let want = a.eval(w) * b.eval(w) + if prod_off { Fr::<G>::one() } else { Fr::<G>::zero() };
            prover.constrain(o - want);
        }
        let mut rng = CountingRng::new(seed, 3);
        let proof = prover.prove(&mut rng, &gens)?;
        let mut tv = Transcript::new(b"c15");
        let mut verifier = Verifier::<G, _>::new(&mut tv);
        if when == 1 {
            for (t, c) in cons {
                verifier.constrain(t.build(&hb) - *c);
            }
        }
        let v0 = verifier.commit(c0);
        let v1 = verifier.commit(c1);
        if when == 2 {
            for (t, c) in cons {
                verifier.constrain(t.build(&hb) - *c);
            }
        }
        let vars = build_ctx(&mut verifier, [v0, v1], None).expect("verifier context");
        if when == 0 || when == 3 {
            for (t, c) in cons {
                verifier.constrain(t.build(if when == 0 { &vars } else { &hb }) - *c);
            }
        }
        for (a, b) in prods.iter().take(4) {
            let (_, _, o) = verifier.multiply(a.build(&vars), b.build(&vars));
            let want = a.eval(w) * b.eval(w) + if prod_off { Fr::<G>::one() } else { Fr::<G>::zero() };
            verifier.constrain(o - want);
        }
        verifier.verify(&proof, &pc, &gens)
    })
}

thread_local! {
    /// where the constraints of the current case are spelled (see `circuit_at`)
    static WHEN: std::cell::Cell<u8> = std::cell::Cell::new(0);
    /// pairs of expressions that are also fed to `multiply`, the product wire being constrained to
    /// the product of their values (plus one when the flag is set)
    static PRODS: std::cell::RefCell<(Vec<(E, E)>, bool)> = std::cell::RefCell::new((vec![], false));
}

fn circuit<G: CurveTag>(w: &[Fr<G>], blinds: &[Fr<G>; 2], cons: &[(&E, Fr<G>)], seed: u64) -> Result<Result<(), R1CSError>, String> {
    circuit_at::<G>(w, blinds, cons, seed, WHEN.with(|c| c.get()))
}

fn case<G: CurveTag>(bytes: &[u8], col: &mut Collector, max_depth: usize) -> Result<(), Failure> {
    let mut ch = Choices::new(bytes);
    // assignment
    let mut w: Vec<Fr<G>> = vec![Fr::<G>::zero(); NV];
    let specs: Vec<ScalarSpec> = (0..7).map(|_| ScalarSpec::gen(&mut ch)).collect();
    w[0] = specs[0].to_f();
    w[1] = specs[1].to_f();
    w[2] = specs[2].to_f();
    w[3] = specs[3].to_f();
    w[4] = w[2] * w[3];
    w[5] = specs[4].to_f();
    w[6] = specs[5].to_f();
    w[7] = w[5] * w[6];
    w[8] = specs[6].to_f();
    w[9] = ScalarSpec::gen(&mut ch).to_f();
    w[10] = Fr::<G>::one();
    let blinds: [Fr<G>; 2] = [ScalarSpec::Rand(ch.byte() as u64).to_f(), ScalarSpec::Rand(1000 + ch.byte() as u64).to_f()];
    let ntrees = 4 + ch.below(5);
    // now and then a row is followed by its twin: the same spelling and coefficients over other variables
    let mut trees: Vec<E> = vec![];
    while trees.len() < ntrees {
        let d = 1 + ch.below(max_depth);
        let twin = ch.chance(40);
        let mut fork = ch.fork();
        trees.push(gen_tree(&mut ch, d));
        if twin && trees.len() < ntrees {
            VOFF.with(|v| v.set(1 + trees.len() % 7));
            let t2 = gen_tree(&mut fork, d);
            VOFF.with(|v| v.set(0));
            trees.push(t2);
        }
    }
    let delta = ScalarSpec::gen_nonzero(&mut ch);
    let bad_idx = ch.below(ntrees);
    let seed = ch.u16() as u64;
    let when = ch.weighted(&[55, 18, 14, 13]) as u8;
    WHEN.with(|c| c.set(when));
    let vals: Vec<Fr<G>> = trees.iter().map(|t| t.eval(&w)).collect();
    let when_name = ["after the variables exist", "before any variable exists (hand-built handles)", "between the commitments and the gates (hand-built handles)", "after the variables exist (hand-built handles)"][when as usize];
    let what = |extra: Value| json!({"curve": G::CURVE.name(), "constraints_spelled": when_name, "assignment": specs.iter().map(|s| s.short()).collect::<Vec<_>>(), "trees": trees.iter().map(|t| t.show()).collect::<Vec<_>>(), "detail": extra});
    // some of the expressions are also used as operands of `multiply`
    let nprod = ch.below(3);
    let prods: Vec<(E, E)> = (0..nprod).map(|_| (trees[ch.below(ntrees)].clone(), trees[ch.below(ntrees)].clone())).collect();
    PRODS.with(|p| *p.borrow_mut() = (prods.clone(), false));
    // circuit A: every tree constrained to its reference value
    let cons: Vec<(&E, Fr<G>)> = trees.iter().zip(vals.iter().copied()).collect();
    match circuit::<G>(&w, &blinds, &cons, seed) {
        Err(p) => return Err(Failure::new("C15:panic", format!("panic while building / proving: {}", p), what(json!(null)))),
        Ok(Ok(())) => {}
        Ok(Err(e)) => {
            // find the culprit for the report
            let mut culprit = None;
            for (i, c) in cons.iter().enumerate() {
                if !matches!(circuit::<G>(&w, &blinds, &[*c], seed), Ok(Ok(()))) {
                    culprit = Some(i);
                    break;
                }
            }
            return Err(Failure::new(
                format!("C15:rejected-at-reference-value:{}", culprit.map(|i| trees[i].name()).unwrap_or("?")),
                format!("constraining expr - value(expr) was not provable/verifiable ({:?}); tree #{:?}", e, culprit),
                what(json!({"culprit": culprit.map(|i| trees[i].show())})),
            ));
        }
    }
    // products off by one must be rejected
    if !prods.is_empty() {
        PRODS.with(|p| *p.borrow_mut() = (prods[..1].to_vec(), true));
        let r = circuit::<G>(&w, &blinds, &[], seed);
        PRODS.with(|p| *p.borrow_mut() = (vec![], false));
        match r {
            Err(p) => return Err(Failure::new("C15:panic", format!("panic: {}", p), what(json!(null)))),
            Ok(Ok(())) => {
                return Err(Failure::new(
                    "C15:accepted-off-value:multiply",
                    "constraining the output of multiply(expr_a, expr_b) to value(expr_a)·value(expr_b) + 1 was accepted".to_string(),
                    what(json!({"a": prods[0].0.show(), "b": prods[0].1.show()})),
                ))
            }
            Ok(Err(_)) => {}
        }
        col.class("multiply-operands");
    }
    PRODS.with(|p| *p.borrow_mut() = (vec![], false));
    // circuit B: one tree constrained to value + delta must be rejected
    let d: Fr<G> = delta.to_f();
    let t = &trees[bad_idx];
    match circuit::<G>(&w, &blinds, &[(t, vals[bad_idx] + d)], seed) {
        Err(p) => return Err(Failure::new("C15:panic", format!("panic: {}", p), what(json!(null)))),
        Ok(Ok(())) => {
            return Err(Failure::new(
                format!("C15:accepted-off-value:{}", t.name()),
                format!("constraining expr - (value(expr) + {}) was accepted", delta.short()),
                what(json!({"tree": t.show(), "delta": delta.short()})),
            ))
        }
        Ok(Err(_)) => {}
    }
    let mut hist = BTreeMap::new();
    let mut big = 0;
    for t in &trees {
        let n = t.nodes(&mut hist);
        if n >= 3 {
            big += 1;
            col.nontrivial(fp_of(&(G::CURVE, t)));
        }
    }
    for (k, v) in hist {
        for _ in 0..v.min(1) {
            col.class(&format!("op:{}", k));
        }
    }
    col.evals_add(ntrees as u64);
    col.class(["constraints:after", "constraints:before-everything", "constraints:between-commitments-and-gates", "constraints:hand-built-handles"][when as usize]);
    col.sample(big > 0, || what(json!({"reference_values_accepted": ntrees, "off_by": delta.short(), "off_tree": trees[bad_idx].show(), "off_verdict": "rejected"})));
    Ok(())
}


/// Variables with indices beyond 2^16: 65 536 zero-valued filler commitments, then two real
/// ones; a long expression built with `+` / `-` over high- and low-index variables of every
/// kind must still mean what it spells.
fn huge_index_case<G: CurveTag>(col: &mut Collector) -> Result<(), Failure> {
    const FILL: usize = 65_536;
    let vals: Vec<Fr<G>> = (0..8).map(|i| ScalarSpec::Rand(900 + i).to_f()).collect();
    // assignment: hi0, hi1, l0, r0, o0, l1, r1, o1, filler(=0), one
    let a: Vec<Fr<G>> = vec![vals[0], vals[1], vals[2], vals[3], vals[2] * vals[3], vals[4], vals[5], vals[4] * vals[5], Fr::<G>::zero(), Fr::<G>::one()];
    let coeffs: Vec<Fr<G>> = (0..90).map(|i| ScalarSpec::Rand(2000 + i).to_f()).collect();
    let value: Fr<G> = (0..90).map(|t| if t % 2 == 0 { coeffs[t] * a[t % 10] } else { -(coeffs[t] * a[t % 10]) }).sum();
    let build = |v: &[Variable<Fr<G>>]| -> LinearCombination<Fr<G>> {
        let mut lc = LinearCombination::default();
        for t in 0..90 {
            let term = v[t % 10] * coeffs[t];
            lc = if t % 2 == 0 { lc + term } else { lc - term };
        }
        lc
    };
    let run = |target: Fr<G>| -> Result<Result<(), R1CSError>, String> {
        guarded(|| {
            let pc = pc_gens::<G>();
            let gens = bp_gens::<G>(2, 1);
            let mut tp = Transcript::new(b"c15-huge");
            let mut prover = Prover::new(&pc, &mut tp);
            let mut coms = Vec::with_capacity(FILL + 2);
            let mut filler = Variable::One();
            for i in 0..FILL {
                let (c, v) = prover.commit(Fr::<G>::zero(), Fr::<G>::zero());
                coms.push(c);
                if i == 5 {
                    filler = v;
                }
            }
            let (c0, h0) = prover.commit(a[0], ScalarSpec::Rand(1).to_f());
            let (c1, h1) = prover.commit(a[1], ScalarSpec::Rand(2).to_f());
            let (l0, r0, o0) = prover.allocate_multiplier(Some((a[2], a[3])))?;
            let (l1, r1, o1) = prover.allocate_multiplier(Some((a[5], a[6])))?;
            let vars = [h0, h1, l0, r0, o0, l1, r1, o1, filler, Variable::One()];
            prover.constrain(build(&vars) - target);
            let mut rng = CountingRng::new(77, 3);
            let proof = prover.prove(&mut rng, &gens)?;
            let mut tv = Transcript::new(b"c15-huge");
            let mut verifier = Verifier::<G, _>::new(&mut tv);
            let mut filler = Variable::One();
            for (i, c) in coms.iter().enumerate() {
                let v = verifier.commit(*c);
                if i == 5 {
                    filler = v;
                }
            }
            let (h0, h1) = (verifier.commit(c0), verifier.commit(c1));
            let (l0, r0, o0) = verifier.allocate_multiplier(None)?;
            let (l1, r1, o1) = verifier.allocate_multiplier(None)?;
            let vars = [h0, h1, l0, r0, o0, l1, r1, o1, filler, Variable::One()];
            verifier.constrain(build(&vars) - target);
            verifier.verify(&proof, &pc, &gens)
        })
    };
    let what = || json!({"curve": G::CURVE.name(), "commitments": FILL + 2, "expression": "90 terms alternating + and - over Committed(65536), Committed(65537), both gates' wires, Committed(5), One"});
    match run(value) {
        Ok(Ok(())) => {}
        other => return Err(Failure::new("C15:huge-index:rejected-at-reference-value", format!("with 65 538 commitments, constraining expr - value(expr) gave {:?}", other), what())),
    }
    match run(value + Fr::<G>::one()) {
        Ok(Err(_)) => {}
        other => return Err(Failure::new("C15:huge-index:accepted-off-value", format!("with 65 538 commitments, constraining expr - (value(expr)+1) gave {:?}", other), what())),
    }
    col.class("variable-index>=2^16");
    col.nontrivial(fp_of(&(G::CURVE, "huge-index")));
    Ok(())
}

fn dispatch(sub: &str, bytes: &[u8], col: &mut Collector) -> Result<(), Failure> {
    let mut it = sub.split('/');
    let _ = it.next();
    let curve = Curve::from_name(it.next().unwrap_or("")).unwrap_or(Curve::Secq);
    let depth: usize = it.next().and_then(|s| s.parse().ok()).unwrap_or(5);
    with_curve!(curve, G => case::<G>(bytes, col, depth))
}

pub fn replay(sub: &str, bytes: &[u8], col: &mut Collector) -> Result<(), Failure> {
    if sub == "c15/huge-index" && bytes.len() == 1 {
        return with_curve!(Curve::ALL[bytes[0] as usize % 3], G => huge_index_case::<G>(col));
    }
    dispatch(sub, bytes, col)
}

pub fn run(tier: &str, seed: u64) -> i32 {
    let mut rep = Report::new("C15", tier, seed);
    rep.rule = "expression trees (depth ≤ 5 quick / 8 thorough) over every operator impl of Variable and LinearCombination (Var±X, −Var, Var*s, Lc±X, −Lc, Lc*s, From<Variable>, From<F>, FromIterator over owned and borrowed terms, Default), all variable kinds (commitments, allocate_multiplier wires, allocate pair, One), coefficients from the scalar classes, repeated variables and zero coefficients; 4–8 trees share an accepting circuit (expr − value), one tree per case is re-proved against value + δ and must be rejected; non-trivial = tree with ≥ 3 nodes; distinct = tree hash".into();
    rep.assumptions = vec!["the reference value is the harness's own evaluation of the tree over the field".into()];
    let depth = if tier == "thorough" { 8 } else { 5 };
    let n = super::scale(tier, 1500, 15000);
    for c in Curve::ALL {
        if !rep.outcome.found.is_empty() {
            break;
        }
        let sub = format!("c15/{}/{}", c.name(), depth);
        rep.outcome.merge(replay_corpus("C15", &sub, &|b, col| dispatch(&sub, b, col)));
        rep.outcome.merge(search(&sub, seed, n, 500, &|b, col| dispatch(&sub, b, col)));
    }
    // variable indices beyond 2^16 (one case on a rotating curve; all curves in the thorough tier)
    if rep.outcome.found.is_empty() {
        let curves: Vec<Curve> = if tier == "thorough" { Curve::ALL.to_vec() } else { vec![Curve::ALL[(seed % 3) as usize]] };
        let o = crate::runner::enumerate("c15/huge-index", &curves, &|c| vec![c.index() as u8], &|c, col| with_curve!(*c, G => huge_index_case::<G>(col)));
        rep.outcome.merge(o);
        rep.outcome.exhaustive = false;
    }
    for op in ["-Var", "Var*F", "Var*u64", "Var+Lc", "Var-Lc", "Var+Var", "Var-Var", "Var+F", "Var-F", "-Lc", "Lc*F", "Lc*u64", "Lc+Lc", "Lc-Lc", "Lc+Var", "Lc-Var", "Lc+F", "Lc-F", "From<Variable>", "From<F>", "Default", "FromIterator(owned)", "FromIterator(&)"] {
        rep.required_classes.push((format!("op:{}", op), 0.01));
    }
    rep.finish()
}
