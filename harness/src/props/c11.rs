//! C11 — proof encoding round-trips, has shape-determined size, rejects invalid encodings.
use crate::choices::Choices;
use crate::curves::{Curve, CurveTag};
use crate::drive::{guarded, run_prover, run_verifier, ProveOpts, VerifyOpts};
use crate::mirror::ProofMirror;
use crate::program::{gen_program, GenCfg};
use crate::runner::{fp_of, replay_corpus, search, Collector, Failure, Report};
use crate::with_curve;
use ark_bulletproofs::r1cs::{R1CSError, R1CSProof};
use ark_ec::{AffineRepr, CurveGroup};
use ark_ff::{BigInteger, PrimeField};
use ark_serialize::{CanonicalDeserialize, CanonicalSerialize};
use serde_json::json;

pub fn expected_len<G: CurveTag>(k: usize) -> usize {
    11 * G::PT + 5 * G::SC + 16 + 2 * k * G::PT
}

/// byte offset of point slot i (0..11 fixed, then L_j, then R_j) and of scalar slot i (0..5)
pub fn point_offset<G: CurveTag>(i: usize, k: usize) -> usize {
    if i < 11 {
        i * G::PT
    } else if i < 11 + k {
        11 * G::PT + 3 * G::SC + 8 + (i - 11) * G::PT
    } else {
        11 * G::PT + 3 * G::SC + 8 + k * G::PT + 8 + (i - 11 - k) * G::PT
    }
}
pub fn scalar_offset<G: CurveTag>(i: usize, k: usize) -> usize {
    if i < 3 {
        11 * G::PT + i * G::SC
    } else {
        11 * G::PT + 3 * G::SC + 16 + 2 * k * G::PT + (i - 3) * G::SC
    }
}

fn decode_is_format_error<G: CurveTag>(b: &[u8]) -> Result<bool, String> {
    match guarded(|| R1CSProof::<G>::from_bytes(b)) {
        Err(p) => Err(p),
        Ok(Err(R1CSError::FormatError)) => Ok(true),
        Ok(Err(e)) => Err(format!("unexpected error kind {:?}", e)),
        Ok(Ok(_)) => Ok(false),
    }
}

/// non-identity points of small order (curve25519): r * Q for arbitrary curve points Q
fn torsion_points<G: CurveTag>() -> Vec<G> {
    let mut out: Vec<G> = vec![];
    if G::COFACTOR == 1 {
        return out;
    }
    let r = <G::ScalarField as PrimeField>::MODULUS;
    for y in 2u64..200 {
        let mut b = vec![0u8; G::PT];
        b[..8].copy_from_slice(&y.to_le_bytes());
        if let Ok(q) = G::deserialize_compressed_unchecked(&b[..]) {
            let t = q.mul_bigint(r).into_affine();
            if !t.is_zero() && !out.contains(&t) {
                out.push(t);
            }
            // multiples of t cover the cyclic part
            let mut m = t;
            for _ in 0..8 {
                m = (m.into_group() + t.into_group()).into_affine();
                if !m.is_zero() && !out.contains(&m) {
                    out.push(m);
                }
            }
        }
        if out.len() >= 7 {
            break;
        }
    }
    out
}

fn bad_scalar_encodings<G: CurveTag>(orig: &[u8]) -> Vec<(String, Vec<u8>)> {
    let p = <G::ScalarField as PrimeField>::MODULUS;
    let le = |b: &<G::ScalarField as PrimeField>::BigInt| -> Vec<u8> {
        let mut v = b.to_bytes_le();
        v.resize(G::SC, 0);
        v
    };
    let mut out = vec![("modulus".to_string(), le(&p))];
    let mut p1 = p;
    p1.add_with_carry(&<G::ScalarField as PrimeField>::BigInt::from(1u64));
    out.push(("modulus+1".into(), le(&p1)));
    out.push(("2^256-1".into(), vec![0xff; G::SC]));
    let mut hb = orig.to_vec();
    hb[G::SC - 1] |= 0x80;
    if hb != orig {
        out.push(("top bit set".into(), hb));
    }
    // original + modulus (same residue) when it fits
    let mut o = <G::ScalarField as PrimeField>::BigInt::default();
    if let Ok(x) = <G::ScalarField as PrimeField>::BigInt::deserialize_compressed(orig) {
        o = x;
    }
    let mut s = o;
    if !s.add_with_carry(&p) {
        out.push(("value+modulus".into(), le(&s)));
    }
    // keep only encodings whose 256-bit integer value is really ≥ the modulus
    out.retain(|(_, b)| {
        let v = <G::ScalarField as PrimeField>::BigInt::deserialize_compressed(&b[..]).expect("32 bytes");
        v >= p
    });
    out
}

fn proof_case<G: CurveTag>(bytes: &[u8], col: &mut Collector, prefixes: bool) -> Result<(), Failure> {
    let mut ch = Choices::new(bytes);
    let cfg = if prefixes {
        GenCfg { max_ops1: 10, max_closures: 2, max_ops2: 6, max_commits: 2, big_gates: 20, max_terms: 4, wide: false }
    } else if ch.chance(40) {
        GenCfg { max_ops1: 12, max_closures: 2, max_ops2: 8, max_commits: 3, big_gates: 130, max_terms: 4, wide: false }
    } else {
        GenCfg::small()
    };
    let prog = gen_program(&mut ch, G::CURVE, &cfg);
    proof_prog::<G>(prog, col, prefixes)
}

/// a circuit with `n` gates (k = 12, 13: beyond the sizes the generator reaches)
fn scale_case<G: CurveTag>(n: usize, col: &mut Collector) -> Result<(), Failure> {
    use crate::program::{Cap, Op, Program, Sc};
    use crate::scalars::ScalarSpec;
    let mut ops = vec![Op::Commit { v: ScalarSpec::Small(7), blind: ScalarSpec::Rand(3) }];
    for i in 0..n {
        ops.push(Op::AllocMul { l: Sc::C(ScalarSpec::Small(1 + i as u64)), r: Sc::C(ScalarSpec::Rand(i as u64)) });
    }
    let prog = Program { curve: G::CURVE, tlabel: 0, pre: vec![], ops, owned: false, cap_p: Cap::Exact, cap_v: Cap::Exact, party_cap: 1, seed: n as u64, pc: 0, gens: 0 };
    proof_prog::<G>(prog, col, false)?;
    col.class("scale");
    Ok(())
}

/// zorro points whose y-coordinate sits at the places where a y-dependent flag could change its
/// mind: around (q−1)/2, around the limb and bit boundaries 2^64, 2^128, 2^192, 2^254, near 0 and q.
/// Built by solving the curve equation for x (uncompressed bytes, so that no flag rule is involved).
fn zorro_boundary_points_uncompressed() -> Vec<Vec<u8>> {
    use ark_bulletproofs::curve::zorro::{Fq, G1Affine, Parameters};
    use ark_ec::short_weierstrass::SWCurveConfig;
    use ark_ff::{BigInteger, Field, One, PrimeField, Zero};
    use ark_serialize::CanonicalSerialize;
    thread_local! {
        static CACHE: std::cell::RefCell<Option<Vec<Vec<u8>>>> = std::cell::RefCell::new(None);
    }
    if let Some(v) = CACHE.with(|c| c.borrow().clone()) {
        return v;
    }
    let (a, b) = (<Parameters as SWCurveConfig>::COEFF_A, <Parameters as SWCurveConfig>::COEFF_B);
    let half = {
        let mut h = Fq::MODULUS;
        h.div2();
        Fq::from_bigint(h).unwrap()
    };
    let two = Fq::from(2u64);
    let mut centres: Vec<Fq> = vec![half, half + Fq::one(), Fq::zero(), -Fq::one()];
    for k in [64u64, 128, 192, 253, 254] {
        centres.push(two.pow([k]));
    }
    let mut out = vec![];
    for c in centres {
        for sign in [1i64, -1] {
            let mut found = 0;
            let mut y = c;
            for _ in 0..60 {
                if !y.is_zero() {
                    if let Some(x) = crate::cubic::cubic_root::<Fq>(a, b - y * y) {
                        let p = G1Affine::new_unchecked(x, y);
                        if p.is_on_curve() {
                            let mut u = vec![];
                            p.serialize_uncompressed(&mut u).unwrap();
                            out.push(u);
                            found += 1;
                            if found == 2 {
                                break;
                            }
                        }
                    }
                }
                if sign > 0 {
                    y += Fq::one();
                } else {
                    y -= Fq::one();
                }
            }
        }
    }
    CACHE.with(|c| *c.borrow_mut() = Some(out.clone()));
    out
}

fn proof_prog<G: CurveTag>(prog: crate::program::Program, col: &mut Collector, prefixes: bool) -> Result<(), Failure> {
    let shape = prog.shape();
    let k = shape.k();
    let pj = || json!({"program": if shape.n() > 300 { json!(format!("{} allocate_multiplier gates, one commitment", shape.n())) } else { prog.to_json() }});
    let p = run_prover::<G>(&prog, &ProveOpts::default());
    let Some(proof) = p.proof.as_ref() else {
        col.note("prover failed (left to C01)");
        return Ok(());
    };
    let e = proof.to_bytes().map_err(|x| Failure::new("C11:to_bytes", format!("to_bytes failed: {:?}", x), pj()))?;
    let e2 = proof.to_bytes().unwrap();
    if e != e2 {
        return Err(Failure::new("C11:nondeterministic", "to_bytes twice gives different bytes", pj()));
    }
    if e.len() != expected_len::<G>(k) {
        return Err(Failure::new(
            "C11:length",
            format!("encoded length {} != 11 points + 5 scalars + 16 + 2k points = {} (gates {}, k = {})", e.len(), expected_len::<G>(k), shape.n(), k),
            pj(),
        ));
    }
    let d = match guarded(|| R1CSProof::<G>::from_bytes(&e)) {
        Ok(Ok(d)) => d,
        other => return Err(Failure::new("C11:decode", format!("from_bytes(to_bytes(proof)) = {:?}", other.map(|r| r.map(|_| ()))), pj())),
    };
    if d.to_bytes().ok().as_ref() != Some(&e) {
        return Err(Failure::new("C11:roundtrip", "to_bytes(from_bytes(e)) != e", pj()));
    }
    // the other encoding mode of the same object round-trips to the same object as well
    {
        use ark_serialize::{CanonicalDeserialize, CanonicalSerialize};
        let r = guarded(|| {
            let mut u = vec![];
            proof.serialize_uncompressed(&mut u).ok()?;
            if u.len() != proof.uncompressed_size() {
                return None;
            }
            let back = R1CSProof::<G>::deserialize_uncompressed(&u[..]).ok()?;
            let mut u2 = vec![];
            back.serialize_uncompressed(&mut u2).ok()?;
            if u2 != u {
                return None;
            }
            back.to_bytes().ok()
        });
        if r.ok().flatten().as_ref() != Some(&e) {
            return Err(Failure::new("C11:roundtrip-uncompressed", "the uncompressed encoding of a proof does not decode back to the same object (or its length differs from uncompressed_size)", pj()));
        }
        // points that are not on the curve, in the uncompressed form (x ‖ y with y changed): the
        // validating decoder of that form must refuse them at every point slot
        {
            let mut u = vec![];
            proof.serialize_uncompressed(&mut u).ok();
            let ups = G::generator().uncompressed_size(); // one uncompressed point: x (32 bytes), then y (with the flags)
            let npts = 11 + 2 * k;
            for i in 0..npts {
                let off = if i < 11 { i * ups } else if i < 11 + k { 11 * ups + 3 * G::SC + 8 + (i - 11) * ups } else { 11 * ups + 3 * G::SC + 8 + k * ups + 8 + (i - 11 - k) * ups };
                if off + ups > u.len() {
                    break;
                }
                let mut b = u.clone();
                // second coordinate, lowest byte
                let yb = off + 32;
                b[yb] = b[yb].wrapping_add(1);
                let single = G::deserialize_uncompressed_unchecked(&b[off..off + ups]);
                let off_curve = match &single {
                    Ok(pt) => ark_serialize::Valid::check(pt).is_err(),
                    Err(_) => false,
                };
                if !off_curve {
                    continue;
                }
                col.evals_add(1);
                match guarded(|| R1CSProof::<G>::deserialize_uncompressed(&b[..]).is_ok()) {
                    Ok(false) => {}
                    Ok(true) => {
                        return Err(Failure::new(
                            "C11:invalid-accepted:uncompressed-off-curve",
                            format!("the validating decoder of the uncompressed form accepts a point that is not on the curve (point slot {})", i),
                            json!({"program": prog.to_json(), "slot": i, "encoding_hex": hex::encode(&b)}),
                        ))
                    }
                    Err(pn) => return Err(Failure::new("C11:invalid-error-kind", format!("uncompressed decode of an off-curve point panicked: {}", pn), pj())),
                }
            }
            col.class("uncompressed-off-curve-points");
        }
        let mut c = vec![];
        proof.serialize_compressed(&mut c).ok();
        if c != e || proof.compressed_size() != e.len() {
            return Err(Failure::new("C11:to_bytes-vs-serialize", "to_bytes differs from serialize_compressed / compressed_size", pj()));
        }
    }
    if prefixes {
        // every strict prefix must be a format error
        for n in 0..e.len() {
            col.evals_add(1);
            match decode_is_format_error::<G>(&e[..n]) {
                Ok(true) => {}
                Ok(false) => return Err(Failure::new("C11:prefix-accepted", format!("strict prefix of length {} (of {}) decodes", n, e.len()), pj())),
                Err(x) => return Err(Failure::new("C11:prefix-error-kind", format!("prefix of length {}: {}", n, x), pj())),
            }
        }
        col.class("all-prefixes");
        col.nontrivial(fp_of(&(prog.fingerprint(), "prefixes")));
        col.sample(true, || json!({"program": prog.to_json(), "encoded_len": e.len(), "k": k, "prefixes_checked": e.len()}));
        return Ok(());
    }
    // same verdict for the decoded object (on a good and on a bad-witness proof alike)
    let v1 = run_verifier::<G>(&prog, &p.commitments, proof, &VerifyOpts::default());
    let v2 = run_verifier::<G>(&prog, &p.commitments, &d, &VerifyOpts::default());
    if v1.verdict() != v2.verdict() {
        return Err(Failure::new("C11:verdict", format!("verdict of the original {} != verdict of the decoded {}", v1.verdict(), v2.verdict()), pj()));
    }
    let mirror = ProofMirror::<G>::from_bytes(&e).ok_or_else(|| Failure::new("C11:mirror", "the mirror layout does not decode the real encoding (field order / layout changed)", pj()))?;
    if mirror.ipp.L.len() != k || mirror.ipp.R.len() != k {
        return Err(Failure::new("C11:rounds", format!("|L|, |R| = {}, {} but k = {}", mirror.ipp.L.len(), mirror.ipp.R.len(), k), pj()));
    }
    // crafted invalid encodings, one field at a time
    let crafted = |what: String, b: Vec<u8>| -> Result<(), Failure> {
        match decode_is_format_error::<G>(&b) {
            Ok(true) => Ok(()),
            Ok(false) => Err(Failure::new(
                format!("C11:invalid-accepted:{}", what.split(' ').next().unwrap_or("")),
                format!("invalid encoding decodes: {}", what),
                json!({"program": prog.to_json(), "what": what, "encoding_hex": hex::encode(&b)}),
            )),
            Err(x) => Err(Failure::new("C11:invalid-error-kind", format!("{}: {}", what, x), pj())),
        }
    };
    let mut n_crafted = 0u64;
    for i in 0..5 {
        let off = scalar_offset::<G>(i, k);
        for (name, enc) in bad_scalar_encodings::<G>(&e[off..off + G::SC]) {
            let mut b = e.clone();
            b[off..off + G::SC].copy_from_slice(&enc);
            crafted(format!("scalar {} := {}", crate::mirror::SCALAR_NAMES[i], name), b)?;
            n_crafted += 1;
        }
    }
    // zorro: points whose y sits at a boundary of the compression flag survive the encoding, alone
    // and inside a proof
    if G::CURVE == Curve::Zorro {
        use ark_serialize::{CanonicalDeserialize, CanonicalSerialize};
        for (pi, u) in zorro_boundary_points_uncompressed().iter().enumerate() {
            let Ok(pt) = G::deserialize_uncompressed(&u[..]) else { continue };
            col.evals_add(1);
            let mut c = vec![];
            pt.serialize_compressed(&mut c).unwrap();
            let back = G::deserialize_compressed(&c[..]).ok();
            if back != Some(pt) {
                return Err(Failure::new(
                    "C11:point-roundtrip:boundary-y",
                    format!("a valid curve point (boundary point #{}) does not survive compress → decompress: decoded {}", pi, if back.is_some() { "to another point" } else { "not at all" }),
                    json!({"point_uncompressed_hex": hex::encode(u), "compressed_hex": hex::encode(&c)}),
                ));
            }
            // inside a proof, at a rotating slot
            let mut m2 = mirror.clone();
            let slot = pi % 11;
            *m2.point_mut(slot) = pt;
            let b2 = m2.to_bytes();
            match guarded(|| R1CSProof::<G>::from_bytes(&b2).ok().and_then(|p| p.to_bytes().ok())) {
                Ok(Some(again)) if again == b2 => {
                    let d2 = ProofMirror::<G>::from_bytes(&again);
                    if d2.map(|mut d| *d.point_mut(slot)) != Some(pt) {
                        return Err(Failure::new("C11:point-roundtrip:boundary-y", format!("boundary point #{} at proof slot {} decodes to another point", pi, slot), json!({"encoding_hex": hex::encode(&b2)})));
                    }
                }
                Ok(_) => {
                    return Err(Failure::new("C11:point-roundtrip:boundary-y", format!("a proof carrying the valid boundary point #{} at slot {} does not decode and re-encode to the same bytes", pi, slot), json!({"encoding_hex": hex::encode(&b2)})));
                }
                Err(pn) => return Err(Failure::new("C11:roundtrip-panic", format!("panic: {}", pn), pj())),
            }
        }
        col.class("zorro:boundary-y-points");
    }
    // whatever decodes re-encodes to the bytes it was decoded from — also encodings whose two lists
    // have different lengths (they are well-formed; it is verification that refuses them)
    for (name, dl, dr) in [("L one longer", 1usize, 0usize), ("R one longer", 0, 1), ("L three longer", 3, 0), ("R empty", 0, usize::MAX), ("L empty", usize::MAX, 0)] {
        let mut m2 = mirror.clone();
        let filler = mirror.A_I1;
        if dl == usize::MAX {
            m2.ipp.L.clear();
        } else {
            for _ in 0..dl {
                m2.ipp.L.push(filler);
            }
        }
        if dr == usize::MAX {
            m2.ipp.R.clear();
        } else {
            for _ in 0..dr {
                m2.ipp.R.push(filler);
            }
        }
        if m2.ipp.L.len() == m2.ipp.R.len() {
            continue;
        }
        let b2 = m2.to_bytes();
        let back = guarded(|| R1CSProof::<G>::from_bytes(&b2).ok().map(|p| (p.to_bytes().ok(), { let mut c = vec![]; let _ = ark_serialize::CanonicalSerialize::serialize_compressed(&p, &mut c); c })));
        match back {
            Err(pn) => return Err(Failure::new("C11:roundtrip-panic", format!("decoding / re-encoding an encoding with {} panicked: {}", name, pn), pj())),
            Ok(None) => {}
            Ok(Some((tb, sc))) => {
                col.evals_add(1);
                if tb.as_ref() != Some(&b2) || sc != b2 {
                    return Err(Failure::new("C11:roundtrip:unequal-lists", format!("an encoding with {} decodes, but the decoded proof does not re-encode to the same bytes (to_bytes: {:?} bytes, serialize_compressed: {} bytes, original: {} bytes)", name, tb.map(|t| t.len()), sc.len(), b2.len()), json!({"program": prog.to_json(), "lists": name, "encoding_hex": hex::encode(&b2)})));
                }
            }
        }
    }
    col.class("roundtrip:unequal-lists");
    // the two list counts: anything but the true count is a format error (never a panic, never an
    // attempt to reserve what the count claims)
    for (which, off) in [("L", 11 * G::PT + 3 * G::SC), ("R", 11 * G::PT + 3 * G::SC + 8 + k * G::PT)] {
        for val in [u64::MAX, 1 << 60, 1 << 32, (k as u64) | 1 << 32, (k as u64) | 1 << 60, 1 << 20, k as u64 + 1, 1 << 24] {
            if val == k as u64 || off + 8 > e.len() {
                continue;
            }
            let mut b = e.clone();
            b[off..off + 8].copy_from_slice(&val.to_le_bytes());
            let (r, peak) = crate::alloc::measure(|| decode_is_format_error::<G>(&b));
            match r {
                Ok(true) => {}
                Ok(false) => {
                    // a count that happens to be consistent with the bytes that follow cannot occur:
                    // the lists would run past the end
                    return Err(Failure::new("C11:invalid-accepted:count", format!("encoding with the {} count set to {} decodes", which, val), pj()));
                }
                Err(x) => return Err(Failure::new("C11:invalid-error-kind", format!("{} count := {}: {}", which, val, x), pj())),
            }
            if peak > 64 * b.len() + 64 * 1024 {
                return Err(Failure::new("C11:count-drives-allocation", format!("decoding a {}-byte encoding whose {} count claims {} points reserved {} bytes before refusing it", b.len(), which, val, peak), pj()));
            }
            n_crafted += 1;
        }
    }
    let tors = torsion_points::<G>();
    let npts = 11 + 2 * k;
    for i in 0..npts {
        let off = point_offset::<G>(i, k);
        let orig = &e[off..off + G::PT];
        // (1) a coordinate with no curve point
        let mut cand = orig.to_vec();
        let mut found = false;
        for _ in 0..64 {
            // increment the little-endian coordinate
            for byte in cand.iter_mut().take(8) {
                *byte = byte.wrapping_add(1);
                if *byte != 0 {
                    break;
                }
            }
            if G::CURVE != Curve::Ed {
                cand[G::PT - 1] &= 0x80; // clear the infinity flag, keep the sign
            }
            if G::deserialize_compressed_unchecked(&cand[..]).is_err() {
                found = true;
                break;
            }
        }
        if found {
            let mut b = e.clone();
            b[off..off + G::PT].copy_from_slice(&cand);
            crafted(format!("point {} := coordinate without a curve point", mirror.point_name(i)), b)?;
            n_crafted += 1;
        }
        // (2) invalid flag combination (short Weierstrass: infinity and sign together)
        if G::CURVE != Curve::Ed {
            let mut b = e.clone();
            b[off + G::PT - 1] |= 0xc0;
            crafted(format!("point {} := both flag bits", mirror.point_name(i)), b)?;
            n_crafted += 1;
        }
        // (3) points outside the prime-order subgroup (curve25519)
        let pt = mirror.clone().point_mut(i).clone();
        for (ti, t) in tors.iter().enumerate() {
            for (label, q) in [("T", *t), ("P+T", (pt.into_group() + t.into_group()).into_affine())] {
                if q.is_zero() {
                    continue;
                }
                let mut enc = vec![];
                q.serialize_compressed(&mut enc).unwrap();
                let mut b = e.clone();
                b[off..off + G::PT].copy_from_slice(&enc);
                crafted(format!("point {} := {} with torsion point #{} (outside the prime-order subgroup)", mirror.point_name(i), label, ti), b)?;
                n_crafted += 1;
            }
        }
    }
    // several points outside the subgroup at once, with small-order components that cancel
    // (a decoder that validates an aggregate instead of every element would let them through)
    if !tors.is_empty() {
        let mut pairs: Vec<(usize, usize)> = vec![];
        for a in 0..npts {
            for b in (a + 1)..npts {
                let both_ipp = a >= 11 && b >= 11;
                if both_ipp || (a + 3 * b + e.len() + shape.m) % 7 == 0 {
                    pairs.push((a, b));
                }
            }
        }
        for (pi, (a, b)) in pairs.iter().enumerate().take(60) {
            let t = tors[pi % tors.len()];
            let pa = mirror.clone().point_mut(*a).clone();
            let pb = mirror.clone().point_mut(*b).clone();
            let qa = (pa.into_group() + t.into_group()).into_affine();
            let qb = (pb.into_group() - t.into_group()).into_affine();
            if qa.is_zero() || qb.is_zero() {
                continue;
            }
            let mut bts = e.clone();
            let (mut ea, mut eb) = (vec![], vec![]);
            qa.serialize_compressed(&mut ea).unwrap();
            qb.serialize_compressed(&mut eb).unwrap();
            let (oa, ob) = (point_offset::<G>(*a, k), point_offset::<G>(*b, k));
            bts[oa..oa + G::PT].copy_from_slice(&ea);
            bts[ob..ob + G::PT].copy_from_slice(&eb);
            crafted(format!("points {} := P+T and {} := P-T (both outside the prime-order subgroup, small-order parts cancel)", mirror.point_name(*a), mirror.point_name(*b)), bts)?;
            n_crafted += 1;
            col.class("cancelling-torsion-pair");
        }
    }
    col.evals_add(n_crafted);
    col.class(&format!("k={}", k));
    if shape.n2 > 0 {
        col.class("second-phase-commitments");
    }
    if !tors.is_empty() {
        col.class("torsion-crafts");
    }
    if !v1.accepted() {
        col.class("rejected-proof-roundtrip");
    }
    if k >= 1 {
        col.nontrivial(prog.fingerprint());
    }
    col.sample(k >= 1, || json!({"program": prog.to_json(), "encoded_len": e.len(), "k": k, "crafted_invalid_encodings": n_crafted, "verdict": v1.verdict()}));
    Ok(())
}

fn dispatch(sub: &str, bytes: &[u8], col: &mut Collector) -> Result<(), Failure> {
    let mut it = sub.split('/');
    let _ = it.next();
    let curve = Curve::from_name(it.next().unwrap_or("")).unwrap_or(Curve::Secq);
    let prefixes = it.next() == Some("prefixes");
    with_curve!(curve, G => proof_case::<G>(bytes, col, prefixes))
}

pub fn replay(sub: &str, bytes: &[u8], col: &mut Collector) -> Result<(), Failure> {
    if sub == "c11/scale" && bytes.len() == 3 {
        let n = (bytes[1] as usize) << 8 | bytes[2] as usize;
        return with_curve!(Curve::ALL[bytes[0] as usize % 3], G => scale_case::<G>(n, col));
    }
    dispatch(sub, bytes, col)
}

pub fn run(tier: &str, seed: u64) -> i32 {
    let mut rep = Report::new("C11", tier, seed);
    rep.rule = "proofs of generated programs (k = 0..7, both phases): determinism, round-trip, same verdict, size law with k from the model; all strict prefixes of a subset (exhaustively); at every scalar slot {p, p+1, 2^256−1, top bit, value+p}; at every point slot {coordinate without curve point, invalid flag pair, each small-order point T and P+T on curve25519}; non-trivial = k ≥ 1; distinct = program hash".into();
    rep.assumptions = vec![
        "candidate invalid point encodings are confirmed invalid independently (unchecked single-point decode fails / r·P ≠ O) before the proof decoder is asked".into(),
        "non-canonical encodings that decode to the identical object (ignored flag bits, trailing bytes) are outside this property".into(),
    ];
    let n = super::scale(tier, 200, 3000);
    let np = super::scale(tier, 20, 120);
    for c in Curve::ALL {
        if !rep.outcome.found.is_empty() {
            break;
        }
        let sub = format!("c11/{}/roundtrip", c.name());
        rep.outcome.merge(replay_corpus("C11", &sub, &|b, col| dispatch(&sub, b, col)));
        rep.outcome.merge(search(&sub, seed, n, 700, &|b, col| dispatch(&sub, b, col)));
        let sub2 = format!("c11/{}/prefixes", c.name());
        rep.outcome.merge(search(&sub2, seed, np, 500, &|b, col| dispatch(&sub2, b, col)));
    }
    // k = 12 / 13: beyond the sizes the generator reaches
    if rep.outcome.found.is_empty() {
        let items: Vec<(Curve, usize)> = if tier == "thorough" {
            Curve::ALL.iter().flat_map(|c| [(*c, 4096usize), (*c, 4097)]).collect()
        } else {
            vec![(Curve::ALL[((seed + 2) % 3) as usize], 2049)]
        };
        let mut o = crate::runner::enumerate("c11/scale", &items, &|(c, n)| vec![c.index() as u8, (*n >> 8) as u8, *n as u8], &|(c, n), col| with_curve!(*c, G => scale_case::<G>(*n, col)));
        o.exhaustive = false;
        rep.outcome.merge(o);
    }
    for (c, f) in [("k=0", 0.02), ("k=1", 0.02), ("k=3", 0.01), ("second-phase-commitments", 0.05), ("all-prefixes", 0.0005)] {
        rep.required_classes.push((c.to_string(), f));
    }
    rep.finish()
}
