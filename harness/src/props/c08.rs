//! C08 — hostile proofs and byte strings yield errors, never panics or runaway memory.
use crate::alloc::measure;
use crate::choices::Choices;
use crate::curves::{Curve, CurveTag};
use crate::drive::{guarded, run_batch, run_prover, run_verifier, BatchMember, ProveOpts, VerifyOpts};
use crate::mirror::ProofMirror;
use crate::program::{Cap, Op, Program, Sc, Var};
use crate::runner::{enumerate, fp_of, replay_corpus, search, Collector, Failure, Report};
use crate::scalars::ScalarSpec;
use crate::with_curve;
use ark_bulletproofs::r1cs::R1CSProof;
use ark_ec::{AffineRepr, CurveGroup};
use ark_ff::{PrimeField, Zero};
use serde_json::json;
use std::cell::RefCell;
use std::collections::HashMap;
use std::rc::Rc;

/// A small deterministic circuit with `g` gates (the last `g2` of them in the second phase).
pub fn fixture_program(curve: Curve, g: usize, g2: usize) -> Program {
    let mut ops = vec![Op::Commit { v: ScalarSpec::Small(7), blind: ScalarSpec::Rand(1) }];
    let g1 = g - g2;
    for i in 0..g1 {
        ops.push(Op::AllocMul { l: Sc::C(ScalarSpec::Small(2 + i as u64)), r: Sc::C(ScalarSpec::Rand(10 + i as u64)) });
    }
    let mut lc = vec![(Var::Com(0), Sc::C(ScalarSpec::Small(3)))];
    if g1 > 0 {
        lc.push((Var::O(g1 - 1), Sc::C(ScalarSpec::One)));
    }
    ops.push(Op::Constrain { lc, err: None, base: None });
    if g2 > 0 {
        let mut body = vec![Op::Challenge { label: 0 }];
        for i in 0..g2 {
            body.push(Op::AllocMul { l: Sc::MulReg(ScalarSpec::One, 0), r: Sc::C(ScalarSpec::Small(5 + i as u64)) });
        }
        body.push(Op::Constrain { lc: vec![(Var::L(g1), Sc::C(ScalarSpec::One)), (Var::Com(0), Sc::C(ScalarSpec::One))], err: None, base: None });
        ops.push(Op::Closure(body));
    }
    Program { curve, tlabel: 0, pre: vec![], ops, owned: false, cap_p: Cap::Big, cap_v: Cap::Big, party_cap: 1, seed: 42, pc: 0, gens: 0 }
}

pub struct Fixture<G: AffineRepr> {
    pub prog: Program,
    pub commitments: Vec<G>,
    pub proof: R1CSProof<G>,
    pub mirror: ProofMirror<G>,
    pub bytes: Vec<u8>,
}

thread_local! {
    static FIX: RefCell<HashMap<(usize, usize, usize), Rc<dyn std::any::Any>>> = RefCell::new(HashMap::new());
}

pub fn fixture<G: CurveTag>(g: usize, g2: usize) -> Rc<Fixture<G>> {
    FIX.with(|m| {
        let key = (G::CURVE.index(), g, g2);
        if let Some(x) = m.borrow().get(&key) {
            return x.clone().downcast::<Fixture<G>>().unwrap();
        }
        let prog = fixture_program(G::CURVE, g, g2);
        let p = run_prover::<G>(&prog, &ProveOpts::default());
        let proof = p.proof.expect("fixture proves");
        let mirror = ProofMirror::from_proof(&proof);
        let bytes = p.bytes.unwrap();
        let f = Rc::new(Fixture { prog, commitments: p.commitments, proof, mirror, bytes });
        m.borrow_mut().insert(key, f.clone() as Rc<dyn std::any::Any>);
        f
    })
}

pub fn rand_point<G: CurveTag>(seed: u64) -> G {
    // a non-identity member of the prime-order subgroup: (seed-derived scalar) * generator
    let s: G::ScalarField = ScalarSpec::Rand(seed ^ 0xabcdef).to_f();
    G::generator().mul_bigint(s.into_bigint()).into_affine()
}

pub const GRID_LENS: [usize; 16] = [0, 1, 2, 3, 4, 5, 6, 7, 8, 9, 31, 32, 33, 63, 64, 65];
pub const GRID_GATES: [usize; 7] = [0, 1, 2, 3, 4, 5, 8];

#[derive(Clone, Copy, Debug, PartialEq, Eq, Hash)]
pub struct GridCase {
    pub curve: Curve,
    pub gates: usize,
    pub la: usize,
    pub lb: usize,
    /// 0 honest points (cycled), 1 all identity, 2 one identity (rotating position), 3 random points
    pub fill: u8,
    /// 0 honest scalars, 1 all zero
    pub scal: u8,
    /// 0 verify, 1 batch alone, 2 batch beside a valid member
    pub mode: u8,
}

impl GridCase {
    pub fn encode(&self) -> Vec<u8> {
        vec![self.curve.index() as u8, self.gates as u8, self.la as u8, self.lb as u8, self.fill, self.scal, self.mode]
    }
    pub fn decode(b: &[u8]) -> Option<GridCase> {
        if b.len() != 7 {
            return None;
        }
        Some(GridCase { curve: *Curve::ALL.get(b[0] as usize)?, gates: b[1] as usize, la: b[2] as usize, lb: b[3] as usize, fill: b[4], scal: b[5], mode: b[6] })
    }
}

fn craft<G: CurveTag>(fx: &Fixture<G>, c: &GridCase) -> ProofMirror<G> {
    let mut m = fx.mirror.clone();
    let pool: Vec<G> = fx.mirror.ipp.L.iter().chain(fx.mirror.ipp.R.iter()).copied().chain(fx.mirror.points().into_iter().filter(|p| !p.is_zero())).collect();
    let mk = |i: usize, total_pos: usize| -> G {
        match c.fill {
            0 => pool[i % pool.len()],
            1 => G::zero(),
            2 => {
                if i == (c.la * 7 + c.lb * 3 + c.gates) % total_pos.max(1) {
                    G::zero()
                } else {
                    pool[i % pool.len()]
                }
            }
            _ => rand_point::<G>(i as u64 + 1000 * c.la as u64 + 77 * c.lb as u64),
        }
    };
    let total = c.la + c.lb;
    m.ipp.L = (0..c.la).map(|i| mk(i, total)).collect();
    m.ipp.R = (0..c.lb).map(|i| mk(c.la + i, total)).collect();
    if c.scal == 1 {
        for i in 0..5 {
            *m.scalar_mut(i) = G::ScalarField::zero();
        }
    }
    m
}

/// decode + verify / batch, no panic allowed; returns (decoded?, verdict text)
fn judge<G: CurveTag>(
    fx: &Fixture<G>,
    bytes: &[u8],
    modes: &[u8],
    all_decoders: bool,
    what: &dyn Fn() -> serde_json::Value,
) -> Result<(bool, String), Failure> {
    let (dec, peak) = measure(|| guarded(|| R1CSProof::<G>::from_bytes(bytes)));
    let dec = match dec {
        Err(p) => {
            return Err(Failure::new(
                format!("C08:decode-panic:{}", p.split('@').last().unwrap_or("").trim()),
                format!("from_bytes panicked: {}", p),
                what(),
            ))
        }
        Ok(d) => d,
    };
    let bound = 64 * bytes.len() + 64 * 1024;
    if peak > bound {
        return Err(Failure::new(
            "C08:decode-memory",
            format!("from_bytes on {} bytes reached {} live heap bytes (> 64*len + 64KiB = {})", bytes.len(), peak, bound),
            what(),
        ));
    }
    // every public way of decoding a proof: from_bytes, the CanonicalDeserialize impls
    // (validated and unchecked), and a proof inside a container (validated through the
    // container's batch check)
    use ark_serialize::CanonicalDeserialize;
    let mut decoded: Vec<(&str, R1CSProof<G>)> = vec![];
    if let Ok(p) = dec {
        decoded.push(("from_bytes", p));
    }
    let others: Result<Vec<(&str, Option<R1CSProof<G>>)>, String> = guarded(|| {
        if !all_decoders {
            return vec![];
        }
        let mut container = (1u64).to_le_bytes().to_vec();
        container.extend_from_slice(bytes);
        vec![
            ("deserialize_compressed", R1CSProof::<G>::deserialize_compressed(bytes).ok()),
            ("deserialize_compressed_unchecked", R1CSProof::<G>::deserialize_compressed_unchecked(bytes).ok()),
            ("Vec::deserialize_compressed", Vec::<R1CSProof<G>>::deserialize_compressed(&container[..]).ok().and_then(|mut v| v.pop())),
            ("Vec::deserialize_compressed (two members)", {
                let mut c2 = (2u64).to_le_bytes().to_vec();
                c2.extend_from_slice(bytes);
                c2.extend_from_slice(bytes);
                Vec::<R1CSProof<G>>::deserialize_compressed(&c2[..]).ok().and_then(|mut v| v.pop())
            }),
            ("Option::deserialize_compressed", {
                let mut o = vec![1u8];
                o.extend_from_slice(bytes);
                Option::<R1CSProof<G>>::deserialize_compressed(&o[..]).ok().flatten()
            }),
            ("empty containers", {
                // containers without a single proof in them (validated decode must cope)
                let _ = Vec::<R1CSProof<G>>::deserialize_compressed(&[0u8; 8][..]);
                let _ = Option::<R1CSProof<G>>::deserialize_compressed(&[0u8][..]);
                let _ = Vec::<Option<R1CSProof<G>>>::deserialize_compressed(&[2u8, 0, 0, 0, 0, 0, 0, 0, 0, 0][..]);
                let _ = Vec::<Vec<R1CSProof<G>>>::deserialize_compressed(&[1u8, 0, 0, 0, 0, 0, 0, 0, 0, 0, 0, 0, 0, 0, 0, 0][..]);
                None
            }),
            ("deserialize_uncompressed", R1CSProof::<G>::deserialize_uncompressed(bytes).ok()),
            ("deserialize_uncompressed_unchecked", R1CSProof::<G>::deserialize_uncompressed_unchecked(bytes).ok()),
            // the uncompressed form of whatever the bytes decode to, decoded again
            ("uncompressed round trip", R1CSProof::<G>::deserialize_compressed_unchecked(bytes).ok().and_then(|p| {
                use ark_serialize::CanonicalSerialize;
                let mut u = vec![];
                p.serialize_uncompressed(&mut u).ok()?;
                R1CSProof::<G>::deserialize_uncompressed_unchecked(&u[..]).ok()
            })),
        ]
    });
    match others {
        Err(p) => {
            return Err(Failure::new(
                format!("C08:decode-panic:{}", p.split('@').last().unwrap_or("").trim()),
                format!("a CanonicalDeserialize entry point panicked: {}", p),
                what(),
            ))
        }
        Ok(v) => {
            for (name, p) in v {
                if let Some(p) = p {
                    // skip objects already covered (same canonical bytes)
                    let enc = p.to_bytes().ok();
                    if !decoded.iter().any(|(_, q)| q.to_bytes().ok() == enc) {
                        decoded.push((name, p));
                    }
                }
            }
        }
    }
    if decoded.is_empty() {
        return Ok((false, "FormatError".into()));
    }
    let mut verdicts = vec![];
    for (how, proof) in &decoded {
        for mode in modes {
            match mode {
                0 => {
                    let (v, peak) = measure(|| run_verifier::<G>(&fx.prog, &fx.commitments, proof, &VerifyOpts::default()));
                    // verification works on the circuit's padded size and the proof it was given: what
                    // it allocates stays within a fixed allowance plus a multiple of both
                    let allowance = 16 * 1024 * 1024 + 4096 * (bytes.len() + 512);
                    if peak > allowance {
                        return Err(Failure::new(
                            "C08:verify-memory",
                            format!("Verifier::verify of a {}-byte proof (decoded with {}; lists of {} and {} points) against a circuit of {} gates reached {} live heap bytes (allowance {})", bytes.len(), how, proof_lens(proof).0, proof_lens(proof).1, fx.prog.shape().n(), peak, allowance),
                            what(),
                        ));
                    }
                    if let Some(p) = &v.panic {
                        return Err(Failure::new(
                            format!("C08:verify-panic:{}", p.split('@').last().unwrap_or("").trim()),
                            format!("Verifier::verify panicked on a proof decoded with {}: {}", how, p),
                            what(),
                        ));
                    }
                    verdicts.push(v.verdict());
                }
                m => {
                    let mut members = vec![BatchMember { prog: &fx.prog, commitments: &fx.commitments, proof }];
                    if *m == 2 {
                        members.insert(0, BatchMember { prog: &fx.prog, commitments: &fx.commitments, proof: &fx.proof });
                    }
                    let (r, p) = run_batch::<G>(&members, 256, 5);
                    if let Some(p) = p {
                        return Err(Failure::new(
                            format!("C08:batch-panic:{}", p.split('@').last().unwrap_or("").trim()),
                            format!("batch_verify ({} members) panicked on a proof decoded with {}: {}", members.len(), how, p),
                            what(),
                        ));
                    }
                    verdicts.push(format!("batch:{}", if matches!(r, Some(Ok(()))) { "Ok" } else { "Err" }));
                }
            }
        }
    }
    Ok((true, verdicts.join(",")))
}

fn proof_lens<G: CurveTag>(p: &R1CSProof<G>) -> (usize, usize) {
    let m = crate::mirror::ProofMirror::from_proof(p);
    (m.ipp.L.len(), m.ipp.R.len())
}

fn grid_case<G: CurveTag>(c: &GridCase, col: &mut Collector) -> Result<(), Failure> {
    let fx = fixture::<G>(c.gates, 0);
    let m = craft(&fx, c);
    let bytes = m.to_bytes();
    let what = || json!({"grid": format!("{:?}", c), "proof_hex": hex::encode(&bytes[..bytes.len().min(4096)])});
    let (decoded, verdict) = judge::<G>(&fx, &bytes, &[c.mode], {
        let k = c.gates.next_power_of_two().max(1).trailing_zeros() as usize;
        c.la == k || c.lb == k || (c.la + 3 * c.lb + c.gates + c.fill as usize) % 8 == 0
    }, &what)?;
    if decoded {
        col.nontrivial(fp_of(c));
        col.class(if c.la == c.lb { "|L|=|R|" } else if c.la < c.lb { "|L|<|R|" } else { "|L|>|R|" });
        if c.la == fx.mirror.ipp.L.len() && c.lb != c.la {
            col.class("|L|=log2(padded),|R| differs");
        }
    } else {
        col.class("grid:not-decodable");
    }
    if c.la == 3 && c.lb == 2 && c.fill == 0 {
        col.sample(true, || json!({"grid": format!("{:?}", c), "verdict": verdict}));
    }
    Ok(())
}

fn dispatch_grid(c: &GridCase, col: &mut Collector) -> Result<(), Failure> {
    with_curve!(c.curve, G => grid_case::<G>(c, col))
}

pub fn grid(curves: &[(Curve, usize)], full_product: bool) -> Vec<GridCase> {
    // (curve, stride): stride 1 = every cell, s = every s-th cell.
    // full_product = false: lengths ≥ 31 are combined with fill 0 / honest scalars only.
    let mut v = vec![];
    for (curve, stride) in curves {
        let mut idx = 0usize;
        for gates in GRID_GATES {
            for la in GRID_LENS {
                for lb in GRID_LENS {
                    for fill in 0..4u8 {
                        for scal in 0..2u8 {
                            for mode in 0..3u8 {
                                if !full_product && (la > 9 || lb > 9) && (fill != 0 || scal != 0) {
                                    continue;
                                }
                                idx += 1;
                                if idx % stride == 0 {
                                    v.push(GridCase { curve: *curve, gates, la, lb, fill, scal, mode });
                                }
                            }
                        }
                    }
                }
            }
        }
    }
    v
}

// ---------------------------------------------------------------------------------------
// generated objects and byte strings

fn fuzz_case<G: CurveTag>(bytes: &[u8], col: &mut Collector) -> Result<(), Failure> {
    let mut ch = Choices::new(bytes);
    let g = [0usize, 1, 2, 3, 4, 5, 8][ch.below(7)];
    let g2 = if g >= 2 && ch.chance(64) { 1 } else { 0 };
    let fx = fixture::<G>(g, g2);
    let kind = ch.weighted(&[36, 22, 30, 12]);
    let (input, label): (Vec<u8>, &str) = match kind {
        // structurally arbitrary proof object
        0 => {
            let mut m = fx.mirror.clone();
            let k = m.ipp.L.len();
            // mostly short lists; now and then tens of points (never beyond 24: 2^|L| of anything
            // must stay allocatable, the grid covers 31..65)
            let len = |ch: &mut Choices| if ch.chance(40) { 13 + ch.below(12) } else { ch.below(13) };
            let la = if ch.chance(100) { k } else { len(&mut ch) };
            let lb = if ch.chance(100) { la } else { len(&mut ch) };
            let pool: Vec<G> = m.ipp.L.iter().chain(m.ipp.R.iter()).copied().collect();
            let mut pick = |ch: &mut Choices, i: usize| -> G {
                match ch.weighted(&[50, 25, 25]) {
                    0 if !pool.is_empty() => pool[i % pool.len()],
                    1 => G::zero(),
                    _ => rand_point::<G>(ch.byte() as u64),
                }
            };
            m.ipp.L = (0..la).map(|i| pick(&mut ch, i)).collect();
            m.ipp.R = (0..lb).map(|i| pick(&mut ch, i + la)).collect();
            for i in 0..11 {
                match ch.weighted(&[70, 15, 15]) {
                    0 => {}
                    1 => *m.point_mut(i) = G::zero(),
                    _ => *m.point_mut(i) = rand_point::<G>(ch.byte() as u64),
                }
            }
            for i in 0..5 {
                match ch.weighted(&[60, 20, 20]) {
                    0 => {}
                    1 => *m.scalar_mut(i) = G::ScalarField::zero(),
                    _ => *m.scalar_mut(i) = ScalarSpec::gen(&mut ch).to_f(),
                }
            }
            (m.to_bytes(), "object")
        }
        // raw bytes
        1 => {
            let n = ch.below(700);
            (ch.bytes(n), "raw")
        }
        // the uncompressed form of a valid proof with coordinate bytes changed: the unchecked
        // decoders turn it into objects whose points are not on the curve
        3 => {
            use ark_serialize::CanonicalSerialize;
            let mut b = vec![];
            fx.proof.serialize_uncompressed(&mut b).unwrap();
            let nm = 1 + ch.below(3);
            for _ in 0..nm {
                let i = ch.below(b.len().max(1));
                if i < b.len() {
                    match ch.below(3) {
                        0 => b[i] ^= 1 << ch.below(8),
                        1 => b[i] = b[i].wrapping_add(1),
                        _ => b[i] = 0,
                    }
                }
            }
            (b, "mutated-uncompressed-encoding")
        }
        // mutated fixture encoding
        _ => {
            let mut b = fx.bytes.clone();
            let nm = 1 + ch.below(4);
            for _ in 0..nm {
                match ch.below(6) {
                    0 => {
                        let i = ch.below(b.len().max(1));
                        if i < b.len() {
                            b[i] ^= 1 << ch.below(8);
                        }
                    }
                    1 => {
                        let i = ch.below(b.len().max(1));
                        b.truncate(i);
                    }
                    2 => {
                        let n = ch.below(40);
                        let extra = ch.bytes(n);
                        b.extend(extra);
                    }
                    3 => {
                        // overwrite one of the two length prefixes with a hostile value
                        let pt = G::PT;
                        let k = fx.mirror.ipp.L.len();
                        let off = if ch.chance(128) { 11 * pt + 3 * G::SC } else { 11 * pt + 3 * G::SC + 8 + k * pt };
                        let val: u64 = match ch.below(9) {
                            0 => u64::MAX,
                            1 => 1 << 60,
                            2 => 1 << 32,
                            // the honest length (or a small one) with high bits set: right for a
                            // decoder that narrows the count
                            6 => k as u64 | 1 << 60,
                            7 => k as u64 | 1 << 32,
                            8 => ch.below(12) as u64 | 1 << (33 + ch.below(30)),
                            3 => 31 + ch.below(3) as u64,
                            4 => ch.below(12) as u64,
                            _ => (b.len() as u64) / pt as u64 + ch.below(3) as u64,
                        };
                        if off + 8 <= b.len() {
                            b[off..off + 8].copy_from_slice(&val.to_le_bytes());
                        }
                    }
                    4 => {
                        let i = ch.below(b.len().max(1));
                        if i < b.len() {
                            b[i] = ch.byte();
                        }
                    }
                    _ => {
                        let i = ch.below(b.len().max(1));
                        if i < b.len() {
                            b.remove(i);
                        }
                    }
                }
            }
            (b, "mutated-encoding")
        }
    };
    let what = || json!({"kind": label, "gates": [g - g2, g2], "curve": G::CURVE.name(), "input_hex": hex::encode(&input[..input.len().min(4096)])});
    let (decoded, verdict) = judge::<G>(&fx, &input, &[0, 1, 2], input.len() % 2 == 0 || kind == 0 || kind == 3, &what)?;
    col.class(&format!("{}:{}", label, if decoded { "decodes" } else { "format-error" }));
    if decoded {
        col.nontrivial(fp_of(&input));
    }
    col.sample(decoded, || json!({"kind": label, "len": input.len(), "gates": g, "verdict": verdict, "input_hex_prefix": hex::encode(&input[..input.len().min(48)])}));
    Ok(())
}

fn dispatch(sub: &str, bytes: &[u8], col: &mut Collector) -> Result<(), Failure> {
    let curve = Curve::from_name(sub.split('/').nth(1).unwrap_or("")).unwrap_or(Curve::Secq);
    with_curve!(curve, G => fuzz_case::<G>(bytes, col))
}

pub fn replay(sub: &str, bytes: &[u8], col: &mut Collector) -> Result<(), Failure> {
    if sub == "c08/grid" {
        let c = GridCase::decode(bytes).ok_or_else(|| Failure::new("machinery:replay", "bad grid case", json!(null)))?;
        return dispatch_grid(&c, col);
    }
    if sub == "c08/containers" && bytes.len() == 5 {
        let (m, l) = ((bytes[1] as usize) << 8 | bytes[2] as usize, (bytes[3] as usize) << 8 | bytes[4] as usize);
        return with_curve!(Curve::ALL[bytes[0] as usize % 3], G => container_case::<G>(m, l, col));
    }
    dispatch(sub, bytes, col)
}

/// A container of proofs: `members` copies of a small valid proof and one member whose two
/// inner-product lists hold `long` (valid) points each. Decoding it, validated, must neither
/// panic nor use memory out of proportion to the input.
fn container_case<G: CurveTag>(members: usize, long: usize, col: &mut Collector) -> Result<(), Failure> {
    use ark_serialize::{CanonicalDeserialize, CanonicalSerialize};
    let fx = fixture::<G>(1, 0);
    let small = fx.proof.to_bytes().unwrap();
    let mut m = fx.mirror.clone();
    let pt = fx.mirror.A_I1;
    m.ipp.L = vec![pt; long];
    m.ipp.R = vec![pt; long];
    let big = m.to_bytes();
    let at = members / 2;
    let mut bytes = ((members + 1) as u64).to_le_bytes().to_vec();
    for i in 0..=members {
        bytes.extend_from_slice(if i == at { &big } else { &small });
    }
    let what = || json!({"curve": G::CURVE.name(), "members": members + 1, "long_member_rounds": long, "input_bytes": bytes.len()});
    let (r, peak) = measure(|| guarded(|| Vec::<R1CSProof<G>>::deserialize_compressed(&bytes[..]).map(|v| v.len())));
    match r {
        Err(p) => return Err(Failure::new("C08:container-decode-panic", format!("decoding a container of {} proofs panicked: {}", members + 1, p), what())),
        Ok(Ok(n)) if n != members + 1 => return Err(Failure::new("C08:container-decode", format!("container of {} proofs decoded to {} proofs", members + 1, n), what())),
        _ => {}
    }
    let bound = 64 * bytes.len() + 64 * 1024;
    if peak > bound {
        return Err(Failure::new(
            "C08:container-decode-memory",
            format!("decoding a container of {} proofs ({} bytes) reached {} live heap bytes (> 64*len + 64KiB = {})", members + 1, bytes.len(), peak, bound),
            what(),
        ));
    }
    // the same through the unchecked entry point and a re-encoding
    let r2 = guarded(|| {
        let v = Vec::<R1CSProof<G>>::deserialize_compressed_unchecked(&bytes[..]).ok()?;
        let mut out = vec![];
        v.serialize_compressed(&mut out).ok()?;
        Some(out == bytes)
    });
    match r2 {
        Err(p) => return Err(Failure::new("C08:container-decode-panic", format!("unchecked decoding / re-encoding of a container panicked: {}", p), what())),
        Ok(Some(false)) => return Err(Failure::new("C08:container-roundtrip", "a container of proofs does not re-encode to its bytes".to_string(), what())),
        _ => {}
    }
    col.class("container-of-proofs");
    col.nontrivial(fp_of(&(G::CURVE, members, long)));
    Ok(())
}

pub fn run(tier: &str, seed: u64) -> i32 {
    let mut rep = Report::new("C08", tier, seed);
    // C08 is about crashes: keep the case in progress on disk (see ./check: a run that dies is
    // traced back to the case that killed it)
    crate::runner::enable_breadcrumbs("C08");
    rep.level = "exploration";
    rep.rule = "grid (quick: lengths ≥31 only with honest fill/scalars; thorough: full product) (|L|,|R|) ∈ {0..9,31,32,33,63,64,65}² × gates {0,1,2,3,4,5,8} × fill {honest points, all identity, one identity, random} × scalars {honest, zero} × {verify, batch alone, batch beside a valid member}; plus proptest-generated structurally arbitrary proof objects, raw byte strings and mutated encodings (bit flips, truncation, extension, hostile length prefixes); non-trivial = the input decodes (reaches verification); distinct = grid cell / input hash".into();
    rep.assumptions = vec![
        "panics are observed with catch_unwind in a panic=unwind build of the library; aborts would kill the process (exit ≠ 0)".into(),
        "memory bound checked on decode: peak additional live heap ≤ 64·len + 64 KiB (counting global allocator, per thread)".into(),
    ];
    // (testing aid: VERIF_C08_GRID_FIRST skips the generated inputs so that the grid runs at once)
    let n = if std::env::var("VERIF_C08_GRID_FIRST").is_ok() { 0 } else { super::scale(tier, 6000, 200000) };
    for c in Curve::ALL {
        if !rep.outcome.found.is_empty() {
            break;
        }
        let sub = format!("c08/{}", c.name());
        rep.outcome.merge(replay_corpus("C08", &sub, &|b, col| dispatch(&sub, b, col)));
        rep.outcome.merge(search(&sub, seed, n, 900, &|b, col| dispatch(&sub, b, col)));
    }
    if rep.outcome.found.is_empty() {
    // quick: full grid on one curve (rotating with the seed), every third cell on the others
    let full = Curve::ALL[(seed % 3) as usize];
    let plan: Vec<(Curve, usize)> = Curve::ALL
        .iter()
        .map(|c| (*c, if tier == "thorough" || *c == full { 1 } else { 3 }))
        .collect();
    let cells = grid(&plan, tier == "thorough");
    let mut g = enumerate("c08/grid", &cells, &|c| c.encode(), &|c, col| dispatch_grid(c, col));
    g.exhaustive = false;
    rep.extra.insert("grid_cells".into(), json!(cells.len()));
    rep.extra.insert("grid_full_on".into(), json!(plan.iter().filter(|p| p.1 == 1).map(|p| p.0.name()).collect::<Vec<_>>()));
    rep.outcome.merge(g);
    }
    // containers of proofs (empty, many members, one member with long lists)
    if rep.outcome.found.is_empty() {
        let curves: Vec<Curve> = if tier == "thorough" { Curve::ALL.to_vec() } else { vec![Curve::ALL[((seed + 1) % 3) as usize]] };
        let mut items = vec![];
        for c in curves {
            for (members, long) in [(0usize, 0usize), (1, 3), (2, 64), (40, 33), (300, 3000), (1000, 200), (17, 9000)] {
                items.push((c, members, long));
            }
        }
        let mut o = enumerate(
            "c08/containers",
            &items,
            &|(c, m, l)| vec![c.index() as u8, (*m >> 8) as u8, *m as u8, (*l >> 8) as u8, *l as u8],
            &|(c, m, l), col| with_curve!(*c, G => container_case::<G>(*m, *l, col)),
        );
        o.exhaustive = false;
        rep.outcome.merge(o);
    }
    for c in ["|L|<|R|", "|L|>|R|", "|L|=log2(padded),|R| differs", "object:decodes", "mutated-encoding:decodes", "raw:format-error"] {
        rep.required_classes.push((c.to_string(), 0.002));
    }
    rep.finish()
}
