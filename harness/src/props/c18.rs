//! C18 — wire stability: proofs and generators of the reference revision stay valid.
use crate::choices::Choices;
use crate::curves::{Curve, CurveTag};
use crate::drive::{run_batch, run_prover, run_verifier, BatchMember, ProveOpts, VerifyOpts};
use crate::drive_ref::{ref_prove, ref_verify};
use crate::fixtures::{self, fx18_program, fx18_wrong, normalise_log, FX_COUNT};
use crate::mirror::{ProofMirror, POINT_NAMES, SCALAR_NAMES};
use crate::program::{gen_program, Cap, GenCfg, Op, Program};
use crate::refgens::{digest_points, enc};
use crate::runner::{enumerate, fp_of, replay_corpus, search, Collector, Failure, Report};
use crate::scalars::ScalarSpec;
use crate::with_curve;
use ark_bulletproofs::r1cs::R1CSProof;
use ark_bulletproofs::{BulletproofGens, PedersenGens};
use ark_ec::CurveGroup;
use ark_serialize::CanonicalDeserialize;
use serde_json::{json, Value};

fn decode_commitments<G: CurveTag>(c: &[Vec<u8>]) -> Option<Vec<G>> {
    c.iter().map(|b| G::deserialize_compressed(&b[..]).ok()).collect()
}

fn fixture_case<G: CurveTag>(fx: &Value, col: &mut Collector) -> Result<(), Failure> {
    let idx = fx["index"].as_u64().unwrap() as usize;
    let prog = fx18_program(G::CURVE, idx);
    let what = |s: &str| json!({"curve": G::CURVE.name(), "fixture": idx, "statement": fx["statement"], "detail": s});
    let fail = |sig: &str, msg: String| Failure::new(format!("C18:{}", sig), format!("fixture {}#{}: {}", G::CURVE.name(), idx, msg), what(sig));
    let proof_bytes = hex::decode(fx["proof"].as_str().unwrap()).unwrap();
    let coms_b: Vec<Vec<u8>> = fx["commitments"].as_array().unwrap().iter().map(|h| hex::decode(h.as_str().unwrap()).unwrap()).collect();
    let coms: Vec<G> = decode_commitments::<G>(&coms_b).ok_or_else(|| fail("commitment-decode", "a recorded commitment no longer decodes".into()))?;
    // (3) encoding layout: the recorded bytes split into the recorded fields, and re-encode identically
    let proof = R1CSProof::<G>::from_bytes(&proof_bytes).map_err(|e| fail("proof-decode", format!("the recorded proof no longer decodes: {:?}", e)))?;
    if proof.to_bytes().ok().as_ref() != Some(&proof_bytes) {
        return Err(fail("proof-reencode", "the recorded proof does not re-encode to the recorded bytes".into()));
    }
    let m = ProofMirror::<G>::from_bytes(&proof_bytes).ok_or_else(|| fail("layout", "the recorded bytes do not follow the recorded field layout".into()))?;
    for (i, n) in POINT_NAMES.iter().enumerate() {
        if Some(hex::encode(enc(&m.points()[i])).as_str()) != fx["fields"][*n].as_str() {
            return Err(fail("layout-field", format!("field {} is not where the reference encoding puts it", n)));
        }
    }
    for (i, n) in SCALAR_NAMES.iter().enumerate() {
        if Some(hex::encode(crate::drive_ref::enc(&m.scalars()[i])).as_str()) != fx["fields"][*n].as_str() {
            return Err(fail("layout-field", format!("field {} is not where the reference encoding puts it", n)));
        }
    }
    // (1) accepted for its statement
    let need = prog.shape().padded();
    let v = run_verifier::<G>(&prog, &coms, &proof, &VerifyOpts { record: true, cap: Some(need), ..Default::default() });
    if !v.accepted() {
        return Err(fail("fixture-rejected", format!("a proof recorded from the reference revision is no longer accepted: {}", v.verdict())));
    }
    let (br, bp) = run_batch::<G>(&[BatchMember { prog: &prog, commitments: &coms, proof: &proof }], need, 5);
    if bp.is_some() || !matches!(br, Some(Ok(()))) {
        return Err(fail("fixture-rejected-by-batch_verify", format!("batch_verify no longer accepts a proof recorded from the reference revision: {:?} {:?}", br, bp)));
    }
    // (2) the verifier's transcript is the recorded one, bit for bit
    let log = normalise_log(&v.log, v.main_id);
    let rec = fx["verifier_transcript"].as_array().unwrap();
    if log.len() != rec.len() || log.iter().zip(rec.iter()).any(|(a, b)| a != b) {
        let i = log.iter().zip(rec.iter()).position(|(a, b)| a != b).unwrap_or(log.len().min(rec.len()));
        return Err(fail(
            "transcript-differs",
            format!("the verifier's transcript differs from the recorded one at operation #{}: now {:?}, recorded {:?}", i, log.get(i).map(|x| x.to_string().chars().take(90).collect::<String>()), rec.get(i).map(|x| x.to_string().chars().take(90).collect::<String>())),
        ));
    }
    // (1') rejected for the recorded wrong statements
    for w in fx["wrong_statements_rejected_by_reference"].as_array().unwrap() {
        let which = w["which"].as_u64().unwrap() as usize;
        let bump = |b: &[u8]| -> Vec<u8> {
            let p = G::deserialize_compressed(b).unwrap();
            enc(&(p.into_group() + G::generator().into_group()).into_affine())
        };
        if let Some((wp, wc, name)) = fx18_wrong(&prog, &coms_b, which, &bump) {
            let wcg = decode_commitments::<G>(&wc).unwrap();
            let r = run_verifier::<G>(&wp, &wcg, &proof, &VerifyOpts { cap: Some(wp.shape().padded().max(need)), ..Default::default() });
            if r.accepted() {
                return Err(fail("wrong-statement-accepted", format!("accepted for a statement the reference revision rejected ({})", name)));
            }
            col.evals_add(1);
        }
    }
    // the current prover's proof for the same statement is accepted by the reference verifier
    let p = run_prover::<G>(&prog, &ProveOpts { cap: Some(need), ..Default::default() });
    if let Some(b) = &p.bytes {
        let pc: Vec<Vec<u8>> = p.commitments.iter().map(enc).collect();
        if pc != coms_b {
            return Err(fail("commitments-differ", "the current prover derives different commitments for the recorded openings".into()));
        }
        let r = ref_verify::<G>(&prog, &pc, b, need, false);
        if !r.accepted {
            return Err(fail("fresh-proof-rejected-by-reference", format!("the reference verifier rejects the current prover's proof: {}", r.verdict)));
        }
    } else {
        return Err(fail("prove", format!("current prover failed on a fixture statement: {:?} {:?}", p.err, p.panic)));
    }
    let shape = prog.shape();
    col.class(&format!("k={}", shape.k()));
    col.class(if shape.closures > 0 { "two-phase" } else { "one-phase" });
    if shape.k() >= 1 {
        col.nontrivial(fp_of(&(G::CURVE, idx, "fixture")));
    }
    if idx == 13 {
        col.sample(true, || json!({"curve": G::CURVE.name(), "fixture": idx, "statement": fx["statement"], "transcript_operations": rec.len(), "wrong_statements": fx["wrong_statements_rejected_by_reference"]}));
    }
    Ok(())
}

fn generators_case<G: CurveTag>(col: &mut Collector) -> Result<(), Failure> {
    let Some(fx) = fixtures::load("generators.json") else {
        return Err(Failure::new("machinery:fixtures", "fixtures/generators.json missing", json!(null)));
    };
    let f = &fx[G::CURVE.name()];
    let (n, parties) = (fixtures::GEN_COUNT, fixtures::GEN_PARTIES);
    let gens = BulletproofGens::<G>::new(n, parties);
    let gv: Vec<G> = gens.G(n, parties).cloned().collect();
    let hv: Vec<G> = gens.H(n, parties).cloned().collect();
    let pc = PedersenGens::<G>::default();
    let fail = |s: &str| Failure::new(format!("C18:generators:{}", s), format!("{} of {} are not reproduced bit for bit", s, G::CURVE.name()), json!({"curve": G::CURVE.name(), "what": s}));
    for j in 0..parties {
        col.evals_add(2);
        if Some(digest_points(&gv[j * n..(j + 1) * n]).as_str()) != f["G_digest_per_party"][j].as_str() {
            return Err(fail("G generators"));
        }
        if Some(digest_points(&hv[j * n..(j + 1) * n]).as_str()) != f["H_digest_per_party"][j].as_str() {
            return Err(fail("H generators"));
        }
        col.nontrivial(fp_of(&(G::CURVE, "gens", j)));
    }
    if Some(hex::encode(enc(&pc.B)).as_str()) != f["B"].as_str() || Some(hex::encode(enc(&pc.B_blinding)).as_str()) != f["B_blinding"].as_str() {
        return Err(fail("Pedersen bases"));
    }
    col.class("generator-digests");
    Ok(())
}

/// fresh programs, both directions, against the frozen reference revision
fn fresh_case<G: CurveTag>(bytes: &[u8], col: &mut Collector, large: bool) -> Result<(), Failure> {
    let cut = bytes.len().min(8);
    let mut chi = Choices::new(&bytes[..cut]);
    let mut ch = Choices::new(&bytes[cut..]);
    let cfg = GenCfg { max_ops1: 10, max_closures: 2, max_ops2: 6, max_commits: 3, big_gates: 0, max_terms: 4, wide: false };
    let mut prog: Program = gen_program(&mut ch, G::CURVE, &cfg);
    prog.cap_p = Cap::Exact;
    prog.cap_v = Cap::Exact;
    prog.owned = false;
    prog.pc = 0; // the reference driver uses the default bases
    let bad = chi.chance(80);
    if bad {
        // a violated constraint (no hook needed, so that the reference prover can run it too)
        let mut done = false;
        for op in prog.ops.iter_mut() {
            if let Op::Constrain { err, .. } = op {
                *err = Some(ScalarSpec::gen_nonzero(&mut chi));
                done = true;
                break;
            }
        }
        if !done {
            prog.ops.push(Op::Constrain { lc: vec![], err: Some(ScalarSpec::One), base: None });
        }
    }
    let need = prog.shape().padded();
    let pj = |s: String| json!({"program": prog.to_json(), "bad_witness": bad, "detail": s});
    // current prover -> reference verifier
    let p = run_prover::<G>(&prog, &ProveOpts::default());
    let Some(cur_bytes) = p.bytes.as_ref() else {
        col.note("current prover failed (left to C01)");
        return Ok(());
    };
    let cur_coms: Vec<Vec<u8>> = p.commitments.iter().map(enc).collect();
    if !bad && !p.model.satisfied() {
        // the generator is satisfiable-by-construction; a miss is counted, never judged
        col.class("generator-unsat");
        return Ok(());
    }
    let rv = ref_verify::<G>(&prog, &cur_coms, cur_bytes, need, false);
    // reference prover -> current verifier
    let (ref_bytes, ref_coms) = ref_prove::<G>(&prog, need).map_err(|e| Failure::new("machinery:ref-prover", format!("reference prover failed: {}", e), pj(e.clone())))?;
    if ref_coms != cur_coms {
        return Err(Failure::new("C18:fresh:commitments-differ", "current and reference prover derive different commitments from the same openings", pj("commitments".into())));
    }
    let rp = R1CSProof::<G>::from_bytes(&ref_bytes).map_err(|e| Failure::new("C18:fresh:reference-proof-does-not-decode", format!("{:?}", e), pj("decode".into())))?;
    let cv = run_verifier::<G>(&prog, &p.commitments, &rp, &VerifyOpts::default());
    let expect = !bad;
    if rv.accepted != expect {
        return Err(Failure::new(
            format!("C18:fresh:reference-verifier-{}", if rv.accepted { "accepts-bad" } else { "rejects-good" }),
            format!("reference verifier on the current prover's proof: {} (expected {})", rv.verdict, if expect { "accept" } else { "reject" }),
            pj("current prover -> reference verifier".into()),
        ));
    }
    if cv.accepted() != expect {
        return Err(Failure::new(
            format!("C18:fresh:current-verifier-{}", if cv.accepted() { "accepts-bad" } else { "rejects-good" }),
            format!("current verifier on the reference prover's proof: {} (expected {})", cv.verdict(), if expect { "accept" } else { "reject" }),
            pj("reference prover -> current verifier".into()),
        ));
    }
    let shape = prog.shape();
    col.class(if bad { "fresh:bad-witness" } else { "fresh:honest" });
    if shape.closures > 0 {
        col.class("fresh:two-phase");
    }
    let nt = shape.k() >= 1;
    if nt {
        col.nontrivial(fp_of(&(prog.fingerprint(), "cur->ref")));
        col.nontrivial(fp_of(&(prog.fingerprint(), "ref->cur")));
    }
    col.evals_add(1);
    col.sample(nt, || json!({"program": prog.to_json(), "bad_witness": bad, "current_prover_to_reference_verifier": rv.verdict, "reference_prover_to_current_verifier": cv.verdict()}));
    Ok(())
}

fn dispatch(sub: &str, bytes: &[u8], col: &mut Collector) -> Result<(), Failure> {
    let curve = Curve::from_name(sub.split('/').nth(1).unwrap_or("")).unwrap_or(Curve::Secq);
    let large = sub.ends_with("/large");
    with_curve!(curve, G => fresh_case::<G>(bytes, col, large))
}

pub fn replay(sub: &str, bytes: &[u8], col: &mut Collector) -> Result<(), Failure> {
    if sub == "c18/fixtures" {
        if bytes.len() != 2 {
            return Err(Failure::new("machinery:replay", "bad fixture reference", json!(null)));
        }
        let curve = Curve::ALL[bytes[0] as usize % 3];
        let all = fixtures::load(&format!("proofs_{}.json", curve.name())).ok_or_else(|| Failure::new("machinery:fixtures", "fixture file missing", json!(null)))?;
        let fx = all.as_array().unwrap().iter().find(|f| f["index"].as_u64() == Some(bytes[1] as u64)).cloned().unwrap_or(Value::Null);
        return with_curve!(curve, G => fixture_case::<G>(&fx, col));
    }
    dispatch(sub, bytes, col)
}

pub fn run(tier: &str, seed: u64) -> i32 {
    let mut rep = Report::new("C18", tier, seed);
    rep.rule = "99 fixtures recorded from the reference revision b4846a6 (3 curves × [first-phase gates {0,1,2,3,5,8} × second-phase gates {0,1,3,6} + nine larger shapes up to 64+64 and 100+5 gates], 0..3 commitments, all allocation paths, user data, empty closures): each proof decodes, splits into the recorded fields, re-encodes identically, is accepted for its statement with a verifier transcript equal to the recorded one operation by operation (labels, payloads, challenge outputs, fork challenge), is rejected for the recorded wrong statements, and the current prover's proof for the same statement is accepted by the frozen reference verifier; generator and Pedersen-base digests are reproduced; plus freshly generated programs (honest and bad-witness) exchanged in both directions between the current tree and the frozen reference revision. Non-trivial = k ≥ 1; distinct = fixture / (program, direction)".into();
    rep.assumptions = vec![
        "vendor/refrev is an unmodified copy of the reference revision's sources (package renamed), compiled into the harness; both trees run on the instrumented Merlin, which is bit-compatible with the registry crate (KAT-checked at start)".into(),
        "byte-identity of fresh proofs with recorded ones is deliberately not required".into(),
    ];
    // fixtures: exhaustive
    let mut items: Vec<(Curve, Value)> = vec![];
    for c in Curve::ALL {
        match fixtures::load(&format!("proofs_{}.json", c.name())) {
            Some(Value::Array(a)) if a.len() == FX_COUNT => items.extend(a.into_iter().map(|f| (c, f))),
            _ => {
                println!("MACHINERY-ERROR property=C18 fixture file for {} missing or incomplete", c.name());
                return 2;
            }
        }
    }
    let o = enumerate(
        "c18/fixtures",
        &items,
        &|(c, f)| vec![c.index() as u8, f["index"].as_u64().unwrap_or(0) as u8],
        &|(c, f), col| with_curve!(*c, G => fixture_case::<G>(f, col)),
    );
    rep.outcome.merge(o);
    for c in Curve::ALL {
        let mut col = Collector::default();
        if let Err(f) = with_curve!(c, G => generators_case::<G>(&mut col)) {
            rep.outcome.found.push(crate::runner::Found { failure: f, bytes: None, sub: "c18/generators".into() });
        }
        rep.outcome.stats.merge(col);
    }
    rep.extra.insert("fixtures".into(), json!(items.len()));
    let n = super::scale(tier, 800, 6000);
    for c in Curve::ALL {
        if !rep.outcome.found.is_empty() {
            break;
        }
        let sub = format!("c18/{}", c.name());
        rep.outcome.merge(replay_corpus("C18", &sub, &|b, col| dispatch(&sub, b, col)));
        rep.outcome.merge(search(&sub, seed, n, 600, &|b, col| dispatch(&sub, b, col)));
        let subl = format!("c18/{}/large", c.name());
        let nl = super::scale(tier, 16, 200);
        rep.outcome.merge(search(&subl, seed, nl, 900, &|b, col| dispatch(&subl, b, col)));
    }
    rep.outcome.exhaustive = false;
    for (c, f) in [("fresh:honest", 0.15), ("fresh:bad-witness", 0.05), ("fresh:two-phase", 0.08)] {
        rep.required_classes.push((c.to_string(), f));
    }
    rep.finish()
}
