//! C17 — too few generators gives a clean error at exactly the padded-size threshold.
use crate::curves::{Curve, CurveTag};
use crate::drive::{run_batch, run_prover, run_verifier, BatchMember, ProveOpts, VerifyOpts};
use crate::program::{Cap, Op, Program, Sc, Var};
use crate::props::c08::fixture;
use crate::runner::{enumerate, fp_of, Collector, Failure, Report};
use crate::scalars::ScalarSpec;
use crate::with_curve;
use ark_bulletproofs::r1cs::R1CSError;
use serde_json::json;

#[derive(Clone, Copy, Debug, PartialEq, Eq, Hash)]
pub struct Shape17 {
    pub curve: Curve,
    pub n1: usize,
    pub n2: usize,
    /// 0: no closure (only with n2 = 0), 1: closure(s) present (empty when n2 = 0)
    pub closure: u8,
    /// party capacity of the generator sets (the circuit proof only ever uses party 0)
    pub parties: u8,
}

impl Shape17 {
    pub fn encode(&self) -> Vec<u8> {
        vec![self.curve.index() as u8, (self.n1 >> 8) as u8, self.n1 as u8, (self.n2 >> 8) as u8, self.n2 as u8, self.closure, self.parties]
    }
    pub fn decode(b: &[u8]) -> Option<Self> {
        if b.len() == 5 {
            return Some(Shape17 { curve: *Curve::ALL.get(b[0] as usize)?, n1: b[1] as usize, n2: b[2] as usize, closure: b[3], parties: b[4] });
        }
        if b.len() != 7 {
            return None;
        }
        Some(Shape17 { curve: *Curve::ALL.get(b[0] as usize)?, n1: (b[1] as usize) << 8 | b[2] as usize, n2: (b[3] as usize) << 8 | b[4] as usize, closure: b[5], parties: b[6] })
    }
}

pub const CAPS: [usize; 19] = [0, 1, 2, 3, 4, 5, 6, 7, 8, 9, 10, 11, 12, 13, 14, 15, 16, 17, 32];
/// capacities around thresholds beyond 2^12
pub const CAPS_HUGE: [usize; 8] = [0, 2048, 4095, 4096, 4097, 8191, 8192, 8193];
/// capacities around the larger thresholds (thorough tier)
pub const CAPS_BIG: [usize; 18] = [0, 16, 31, 32, 33, 47, 63, 64, 65, 96, 127, 128, 129, 200, 255, 256, 257, 300];

pub fn program(s: &Shape17) -> Program {
    let mut ops = vec![Op::Commit { v: ScalarSpec::Small(5), blind: ScalarSpec::Rand(3) }];
    // further commitments (1, 3, 5 or 7 in all): their number has no bearing on the threshold
    for j in 0..((s.n1 * 3 + s.n2) % 4) * 2 {
        ops.push(Op::Commit { v: ScalarSpec::Small(j as u64), blind: ScalarSpec::Small(7 + j as u64) });
    }
    // first-phase gates through all three allocation paths
    let mut made = 0;
    let mut i = 0u64;
    while made < s.n1 {
        i += 1;
        match i % 3 {
            0 if s.n1 - made >= 1 => {
                ops.push(Op::Alloc { val: Sc::C(ScalarSpec::Small(i)) });
                ops.push(Op::Alloc { val: Sc::C(ScalarSpec::Small(i + 1)) });
            }
            1 => ops.push(Op::AllocMul { l: Sc::C(ScalarSpec::Small(i)), r: Sc::C(ScalarSpec::Rand(i)) }),
            _ => ops.push(Op::Mul { left: vec![(Var::Com(0), Sc::C(ScalarSpec::One))], right: vec![(Var::One, Sc::C(ScalarSpec::Small(i)))] }),
        }
        made += 1;
    }
    ops.push(Op::Constrain { lc: vec![(Var::Com(0), Sc::C(ScalarSpec::Small(2)))], err: None, base: None });
    if s.closure == 1 {
        let mut body = vec![Op::Challenge { label: 0 }];
        for j in 0..s.n2 {
            body.push(Op::AllocMul { l: Sc::MulReg(ScalarSpec::One, 0), r: Sc::C(ScalarSpec::Small(2 + j as u64)) });
        }
        if s.n2 > 0 {
            body.push(Op::Constrain { lc: vec![(Var::O(s.n1), Sc::C(ScalarSpec::One))], err: None, base: None });
        }
        ops.push(Op::Closure(body));
    }
    Program { curve: s.curve, tlabel: 1, pre: vec![], ops, owned: false, cap_p: Cap::Big, cap_v: Cap::Big, party_cap: s.parties.max(1), seed: 17, pc: 0, gens: ((s.n1 + 2 * s.n2) % 4) as u8 }
}

fn shape_case<G: CurveTag>(s: &Shape17, col: &mut Collector) -> Result<(), Failure> {
    let prog = program(s);
    let huge = s.n1 + s.n2 > 1000;
    let caps: &[usize] = if huge { &CAPS_HUGE } else if s.n1 + s.n2 > 20 { &CAPS_BIG } else { &CAPS };
    let n = s.n1 + s.n2;
    let need = n.next_power_of_two().max(1);
    let what = |extra: serde_json::Value| json!({"shape": format!("{:?}", s), "need": need, "detail": extra});
    let mut reference: Option<(Vec<u8>, crate::drive::ProveOut<G>)> = None;
    for &cap_p in caps {
        col.evals_add(1);
        let p = run_prover::<G>(&prog, &ProveOpts { cap: Some(cap_p), ..Default::default() });
        if let Some(pn) = &p.panic {
            return Err(Failure::new("C17:prove-panic", format!("prove panicked with capacity {} (need {}): {}", cap_p, need, pn), what(json!({"cap_p": cap_p}))));
        }
        let near = cap_p + 1 >= need && cap_p <= need + 1;
        if cap_p < need {
            if !matches!(p.err, Some(R1CSError::InvalidGeneratorsLength)) {
                return Err(Failure::new(
                    "C17:prove-below-threshold",
                    format!("prove with capacity {} < {} gave {:?} / proof={} instead of InvalidGeneratorsLength", cap_p, need, p.err, p.proof.is_some()),
                    what(json!({"cap_p": cap_p})),
                ));
            }
        } else {
            let Some(b) = p.bytes.clone() else {
                return Err(Failure::new(
                    "C17:prove-at-or-above-threshold",
                    format!("prove with capacity {} ≥ {} failed: {:?}", cap_p, need, p.err),
                    what(json!({"cap_p": cap_p})),
                ));
            };
            match &reference {
                None => reference = Some((b, p)),
                Some((rb, _)) => {
                    if *rb != b {
                        return Err(Failure::new(
                            "C17:proof-depends-on-capacity",
                            format!("same program and seed: proof bytes with capacity {} differ from those with the threshold capacity {}", cap_p, need),
                            what(json!({"cap_p": cap_p})),
                        ));
                    }
                }
            }
        }
        if near {
            col.nontrivial(fp_of(&(s, "P", cap_p)));
        }
    }
    let (_, p) = reference.expect("some capacity suffices");
    let proof = p.proof.as_ref().unwrap();
    let valid = fixture::<G>(1, 0);
    for &cap_v in caps {
        let near = cap_v + 1 >= need && cap_v <= need + 1;
        for mode in 0..if huge { 2 } else { 5u8 } {
            col.evals_add(1);
            let (res, panic): (Option<Result<(), R1CSError>>, Option<String>) = match mode {
                0 => {
                    let v = run_verifier::<G>(&prog, &p.commitments, proof, &VerifyOpts { cap: Some(cap_v), ..Default::default() });
                    (v.result, v.panic)
                }
                m => {
                    let mut members = vec![BatchMember { prog: &prog, commitments: &p.commitments, proof }];
                    // valid one-gate members (capacity 1) after it, before it, or on both sides
                    if m == 2 || m == 4 {
                        members.push(BatchMember { prog: &valid.prog, commitments: &valid.commitments, proof: &valid.proof });
                    }
                    if m == 3 || m == 4 {
                        members.insert(0, BatchMember { prog: &valid.prog, commitments: &valid.commitments, proof: &valid.proof });
                    }
                    run_batch::<G>(&members, cap_v, 9)
                }
            };
            let mname = ["verify", "batch_verify(alone)", "batch_verify(before a valid member)", "batch_verify(after a smaller valid member)", "batch_verify(between valid members)"][mode as usize];
            if let Some(pn) = panic {
                return Err(Failure::new(format!("C17:{}-panic", mname), format!("{} panicked with capacity {} (need {}): {}", mname, cap_v, need, pn), what(json!({"cap_v": cap_v}))));
            }
            let res = res.unwrap();
            // beside a one-gate member the batch needs max(need, 1) = need
            if cap_v < need {
                if res != Err(R1CSError::InvalidGeneratorsLength) {
                    return Err(Failure::new(
                        format!("C17:{}-below-threshold", mname),
                        format!("{} with capacity {} < {} gave {:?} instead of Err(InvalidGeneratorsLength)", mname, cap_v, need, res),
                        what(json!({"cap_v": cap_v})),
                    ));
                }
            } else if res != Ok(()) {
                return Err(Failure::new(
                    format!("C17:{}-at-or-above-threshold", mname),
                    format!("{} with capacity {} ≥ {} gave {:?} for a valid proof", mname, cap_v, need, res),
                    what(json!({"cap_v": cap_v})),
                ));
            }
            if near {
                col.nontrivial(fp_of(&(s, mode, cap_v)));
            }
        }
    }
    // a generator object that holds more than its capacity field says: the field is the capacity
    if need >= 2 {
        let low = need / 2;
        col.evals_add(2);
        let pu = run_prover::<G>(&prog, &ProveOpts { cap: Some(low), real_cap: Some(2 * need), ..Default::default() });
        if pu.panic.is_some() || !matches!(pu.err, Some(R1CSError::InvalidGeneratorsLength)) {
            return Err(Failure::new(
                "C17:prove-understated-object",
                format!("prove with a generator object of declared capacity {} (holding {}) for threshold {} gave {:?} / panic {:?} instead of InvalidGeneratorsLength", low, 2 * need, need, pu.err, pu.panic),
                what(json!({"cap_p": low, "held": 2 * need})),
            ));
        }
        let vu = run_verifier::<G>(&prog, &p.commitments, proof, &VerifyOpts { cap: Some(low), real_cap: Some(2 * need), ..Default::default() });
        if vu.panic.is_some() || vu.result != Some(Err(R1CSError::InvalidGeneratorsLength)) {
            return Err(Failure::new(
                "C17:verify-understated-object",
                format!("verify with a generator object of declared capacity {} (holding {}) for threshold {} gave {:?} / panic {:?} instead of InvalidGeneratorsLength", low, 2 * need, need, vu.result, vu.panic),
                what(json!({"cap_v": low, "held": 2 * need})),
            ));
        }
        col.class("understated-generator-object");
    }
    // malformed proofs: the capacity answer comes first whatever the proof looks like, and a
    // malformed proof under sufficient capacity fails for its own reason, not for the generators
    {
        use crate::mirror::ProofMirror;
        use ark_ec::AffineRepr;
        let m0 = ProofMirror::from_proof(proof);
        let mut bad: Vec<(&'static str, ProofMirror<G>)> = vec![];
        let mut a = m0.clone();
        a.T_1 = G::zero();
        bad.push(("T_1 = identity", a));
        let mut b = m0.clone();
        b.ipp.L.push(p.commitments.first().copied().unwrap_or_else(G::generator));
        b.ipp.R.push(G::generator());
        bad.push(("one inner-product round too many", b));
        if !m0.ipp.L.is_empty() {
            let mut c = m0.clone();
            c.ipp.L.pop();
            c.ipp.R.pop();
            bad.push(("one inner-product round missing", c));
            let mut d = m0.clone();
            d.ipp.L[0] = G::zero();
            bad.push(("L_0 = identity", d));
        }
        let mut e = m0.clone();
        e.t_x += <G::ScalarField as ark_ff::One>::one();
        bad.push(("t_x off by one", e));
        if huge {
            bad.truncate(2);
        }
        for (name, mm) in bad {
            let Ok(bp) = mm.to_real() else { continue };
            for &cap_v in caps {
                for mode in 0..2u8 {
                    col.evals_add(1);
                    let (res, panic) = if mode == 0 {
                        let v = run_verifier::<G>(&prog, &p.commitments, &bp, &VerifyOpts { cap: Some(cap_v), ..Default::default() });
                        (v.result, v.panic)
                    } else {
                        run_batch::<G>(&[BatchMember { prog: &prog, commitments: &p.commitments, proof: &bp }], cap_v, 11)
                    };
                    let mname = ["verify", "batch_verify"][mode as usize];
                    if let Some(pn) = panic {
                        return Err(Failure::new(format!("C17:{}-panic", mname), format!("{} panicked on a malformed proof ({}) with capacity {} (need {}): {}", mname, name, cap_v, need, pn), what(json!({"cap_v": cap_v, "proof": name}))));
                    }
                    let res = res.unwrap();
                    let insufficient = res == Err(R1CSError::InvalidGeneratorsLength);
                    if (cap_v < need) != insufficient || res.is_ok() {
                        return Err(Failure::new(
                            format!("C17:{}-malformed-proof", mname),
                            format!("{} of a malformed proof ({}) with capacity {} (threshold {}) gave {:?}: the insufficient-generators error is due exactly when the capacity is below the threshold", mname, name, cap_v, need, res),
                            what(json!({"cap_v": cap_v, "proof": name})),
                        ));
                    }
                    let near = cap_v + 1 >= need && cap_v <= need + 1;
                    if near {
                        col.nontrivial(fp_of(&(s, name, mode, cap_v)));
                    }
                }
            }
        }
        col.class("malformed-proofs");
    }
    col.class(&format!("need={}", need));
    if s.closure == 1 && s.n2 == 0 {
        col.class("empty-closure");
    }
    if s.n1 == 3 && s.n2 == 2 {
        col.sample(true, || json!({"shape": format!("{:?}", s), "need": need, "caps": CAPS, "verdict": "threshold respected on prove / verify / batch_verify; proof bytes capacity-independent"}));
    }
    Ok(())
}

fn dispatch(s: &Shape17, col: &mut Collector) -> Result<(), Failure> {
    with_curve!(s.curve, G => shape_case::<G>(s, col))
}

pub fn replay(_sub: &str, bytes: &[u8], col: &mut Collector) -> Result<(), Failure> {
    let s = Shape17::decode(bytes).ok_or_else(|| Failure::new("machinery:replay", "bad shape", json!(null)))?;
    dispatch(&s, col)
}

pub fn run(tier: &str, seed: u64) -> i32 {
    let mut rep = Report::new("C17", tier, seed);
    rep.level = "exploration";
    rep.rule = "exhaustive grid: first-phase gates 0..9 × second-phase gates 0..9 (n2 = 0 both without a closure and with an empty one) × prover capacity ∈ {0..17, 32} × verifier capacity ∈ {0..17, 32} × {verify, batch_verify alone, batch_verify beside a valid member; honest proof and 3–5 malformed ones (identity T_1 / L_0, a round too many / missing, t_x shifted)} × party capacity {1,2,3} × 3 curves; non-trivial = capacity within ±1 of the threshold; distinct = (shape, role/mode, capacity)".into();
    rep.assumptions = vec!["threshold = max(1, next_power_of_two(n1 + n2)) as the property states".into()];
    let mut shapes = vec![];
    for curve in Curve::ALL {
        for n1 in 0..10 {
            for n2 in 0..10 {
                // party capacity rotates over 1, 2, 3 in the quick tier; all three in the thorough tier
                let ps: Vec<u8> = if tier == "thorough" { vec![1, 2, 3] } else { vec![1 + ((n1 + 2 * n2 + curve.index()) % 3) as u8] };
                for parties in ps {
                    if n2 == 0 {
                        shapes.push(Shape17 { curve, n1, n2, closure: 0, parties });
                    }
                    shapes.push(Shape17 { curve, n1, n2, closure: 1, parties });
                }
            }
        }
    }
    if tier != "thorough" {
        // a few large thresholds on a rotating curve
        let curve = Curve::ALL[(seed % 3) as usize];
        for (n1, n2) in [(33, 0), (60, 5), (128, 0), (100, 29), (200, 30)] {
            shapes.push(Shape17 { curve, n1, n2, closure: if n2 > 0 { 1 } else { 0 }, parties: 1 + ((n1 + n2) % 3) as u8 });
        }
    }
    if tier == "thorough" {
        // thresholds beyond 2^12, one curve each
        for (i, (n1, n2)) in [(4096usize, 0usize), (4000, 97), (2049, 0)].into_iter().enumerate() {
            shapes.push(Shape17 { curve: Curve::ALL[(i + seed as usize) % 3], n1, n2, closure: if n2 > 0 { 1 } else { 0 }, parties: 1 });
        }
        for curve in Curve::ALL {
            for (n1, n2) in [(31, 0), (32, 0), (33, 0), (20, 12), (30, 3), (63, 0), (60, 4), (64, 0), (33, 32), (65, 0), (100, 28), (127, 0), (128, 0), (129, 0)] {
                shapes.push(Shape17 { curve, n1, n2, closure: if n2 > 0 { 1 } else { 0 }, parties: 1 + ((n1 + n2) % 3) as u8 });
            }
        }
    }
    let o = enumerate("c17/grid", &shapes, &|s| s.encode(), &|s, col| dispatch(s, col));
    rep.outcome.merge(o);
    rep.outcome.exhaustive = true;
    rep.extra.insert("shapes".into(), json!(shapes.len()));
    rep.finish()
}
