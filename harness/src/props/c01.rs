//! C01 — completeness: every satisfied constraint system yields an accepted proof.
use crate::choices::Choices;
use crate::curves::{Curve, CurveTag};
use crate::drive::{run_prover, run_verifier, ProveOpts, VerifyOpts};
use crate::program::{gen_program, Cap, GenCfg};
use crate::runner::{replay_corpus, search, Collector, Failure, Report};
use crate::with_curve;
use ark_bulletproofs::r1cs::R1CSProof;
use serde_json::json;

pub fn cfg_for(sub: &str) -> GenCfg {
    if sub.ends_with("/wide") {
        GenCfg { max_ops1: 700, max_closures: 2, max_ops2: 8, max_commits: 300, big_gates: 0, max_terms: 8, wide: true }
    } else if sub.ends_with("/large") {
        GenCfg { max_ops1: 30, max_closures: 6, max_ops2: 12, max_commits: 14, big_gates: 130, max_terms: 12, wide: false }
    } else {
        GenCfg::small()
    }
}

pub fn case<G: CurveTag>(bytes: &[u8], col: &mut Collector, cfg: &GenCfg) -> Result<(), Failure> {
    let mut ch = Choices::new(bytes);
    let prog = gen_program(&mut ch, G::CURVE, cfg);
    let shape = prog.shape();
    let cj = || json!({"program": prog.to_json()});
    let p = run_prover::<G>(&prog, &ProveOpts::default());
    if !p.model.satisfied() {
        // the generator is satisfiable-by-construction; a miss is counted, never judged here
        col.class("generator-unsat");
        return Ok(());
    }
    if let Some(pn) = &p.panic {
        return Err(Failure::new("C01:prove-panic", format!("prove panicked on a satisfied system: {}", pn), cj()));
    }
    if let Some(e) = &p.err {
        return Err(Failure::new(format!("C01:prove-err:{:?}", e), format!("prove returned {:?} on a satisfied system (capacity {} ≥ padded {})", e, p.cap, shape.padded()), cj()));
    }
    let proof = p.proof.as_ref().unwrap();
    let bytes_enc = p.bytes.clone().unwrap();
    // the verifier gets the decoded encoding (what travels on the wire)
    let decoded = match R1CSProof::<G>::from_bytes(&bytes_enc) {
        Ok(d) => d,
        Err(e) => return Err(Failure::new("C01:decode", format!("from_bytes(to_bytes(proof)) = {:?}", e), cj())),
    };
    let v = run_verifier::<G>(&prog, &p.commitments, &decoded, &VerifyOpts::default());
    if !v.accepted() {
        return Err(Failure::new(
            format!("C01:verify:{}", v.verdict().split('@').next().unwrap_or("")),
            format!("verify = {} for a proof of a satisfied system (gates {}+{}, caps P{} V{})", v.verdict(), shape.n1, shape.n2, p.cap, v.cap),
            cj(),
        ));
    }
    if bytes.first().map(|b| b & 3 == 0).unwrap_or(false) {
        let v2 = run_verifier::<G>(&prog, &p.commitments, proof, &VerifyOpts::default());
        if !v2.accepted() {
            return Err(Failure::new("C01:verify-undecoded", format!("verify(original object) = {}", v2.verdict()), cj()));
        }
    }
    // chained use: a second statement proved and verified on the transcripts the first run left
    // behind (borrowed transcripts are simply reused, owned ones are the returned objects)
    if bytes.get(1).map(|b| b % 8 == 0).unwrap_or(false) {
        let mut ch2 = Choices::new(&bytes[bytes.len() / 2..]);
        let mut prog2 = gen_program(&mut ch2, G::CURVE, &GenCfg::small());
        prog2.pc = prog.pc;
        let v_first = run_verifier::<G>(&prog, &p.commitments, &decoded, &VerifyOpts::default());
        if let (Some(tp), Some(tv)) = (p.end.clone(), v_first.end.clone()) {
            let p2 = run_prover::<G>(&prog2, &ProveOpts { start: Some(tp), ..Default::default() });
            if p2.model.satisfied() {
                let cj2 = || json!({"first_program": prog.to_json(), "second_program": prog2.to_json()});
                match p2.proof.as_ref() {
                    None => return Err(Failure::new("C01:chained-prove", format!("second proof on the same transcript failed: {:?} {:?}", p2.err, p2.panic), cj2())),
                    Some(pf2) => {
                        let v2 = run_verifier::<G>(&prog2, &p2.commitments, pf2, &VerifyOpts { start: Some(tv), ..Default::default() });
                        if !v2.accepted() {
                            return Err(Failure::new(
                                "C01:chained-verify",
                                format!("a second honest proof made and checked on the transcripts left by the first prove/verify is rejected: {}", v2.verdict()),
                                cj2(),
                            ));
                        }
                    }
                }
                col.class("chained-second-proof");
            }
        }
    }
    // classification
    for c in shape.classes() {
        col.class(c);
    }
    if prog.cap_p == Cap::Exact {
        col.class("capP-at-threshold");
    }
    if prog.cap_v == Cap::Exact {
        col.class("capV-at-threshold");
    }
    if prog.owned {
        col.class("owned-transcript");
    }
    if prog.pc != 0 {
        col.class("custom-pedersen-bases");
    }
    if shape.cons1 + shape.cons2 > 256 {
        col.class("more-than-256-constraints");
    }
    if shape.m > 64 {
        col.class("more-than-64-commitments");
    }
    if prog.party_cap > 1 {
        col.class("party-capacity>1");
    }
    let nt = (shape.cons1 + shape.cons2 > 0 && (shape.n() > 0 || shape.m > 0))
        || shape.n() == 0
        || (shape.n1 > 0 && shape.n2 > 0)
        || shape.half_open_end1
        || shape.half_open_end2;
    if nt {
        col.nontrivial(prog.fingerprint());
    }
    col.sample(nt, || json!({"program": prog.to_json(), "verdict": "proved and accepted"}));
    Ok(())
}

/// a circuit with exactly `n` gates: two thirds in the first phase through all three
/// allocation paths, the rest in a closure
fn huge(curve: Curve, n: usize, col: &mut Collector) -> Result<(), Failure> {
    use crate::program::{Op, Program, Sc, Var};
    use crate::scalars::ScalarSpec;
    let n2 = n / 3;
    let n1 = n - n2;
    let mut ops = vec![Op::Commit { v: ScalarSpec::Rand(n as u64), blind: ScalarSpec::Rand(1 + n as u64) }];
    for i in 0..n1 {
        match i % 3 {
            0 => {
                ops.push(Op::Alloc { val: Sc::C(ScalarSpec::Rand(i as u64)) });
                ops.push(Op::Alloc { val: Sc::C(ScalarSpec::Small(i as u64)) });
            }
            1 => ops.push(Op::AllocMul { l: Sc::C(ScalarSpec::Rand(7 * i as u64)), r: Sc::C(ScalarSpec::NegSmall(i as u64)) }),
            _ => ops.push(Op::Mul { left: vec![(Var::Com(0), Sc::C(ScalarSpec::One)), (Var::O(i - 1), Sc::C(ScalarSpec::Half))], right: vec![(Var::L(i - 2), Sc::C(ScalarSpec::Small(3)))] }),
        }
        if i % 5 == 0 {
            ops.push(Op::Constrain { lc: vec![(Var::L(i), Sc::C(ScalarSpec::Rand(i as u64))), (Var::Com(0), Sc::C(ScalarSpec::MinusOne))], err: None, base: None });
        }
    }
    let mut body = vec![Op::Challenge { label: 0 }];
    for j in 0..n2 {
        body.push(Op::AllocMul { l: Sc::MulReg(ScalarSpec::Small(1 + j as u64), 0), r: Sc::AddReg(ScalarSpec::Rand(j as u64), 0) });
        if j % 4 == 0 {
            body.push(Op::Constrain { lc: vec![(Var::O(n1 + j), Sc::MulReg(ScalarSpec::One, 0)), (Var::L(0), Sc::C(ScalarSpec::One))], err: None, base: None });
        }
    }
    ops.push(Op::Closure(body));
    let prog = Program { curve, tlabel: 0, pre: vec![], ops, owned: false, cap_p: Cap::Exact, cap_v: Cap::Exact, party_cap: 1, seed: n as u64, pc: 0, gens: 0 };
    let p = with_curve!(curve, G => {
        let p = run_prover::<G>(&prog, &ProveOpts::default());
        if !p.model.satisfied() { return Ok(()); }
        match p.proof.as_ref() {
            None => Err(format!("prove failed: {:?} {:?}", p.err, p.panic)),
            Some(pf) => {
                let v = run_verifier::<G>(&prog, &p.commitments, pf, &VerifyOpts::default());
                if v.accepted() { Ok(()) } else { Err(format!("verify = {}", v.verdict())) }
            }
        }
    });
    col.class("huge-circuit");
    col.nontrivial(crate::runner::fp_of(&(curve, n)));
    p.map_err(|e| Failure::new("C01:huge", format!("{} gates on {}: {}", n, curve.name(), e), json!({"gates": n, "curve": curve.name()})))
}


/// statements far beyond 2^16 commitments / constraints (zero-valued filler commitments are
/// cheap): kind 0 = 65 540 commitments, kind 1 = 70 000 constraints
fn extreme(curve: Curve, kind: u8, col: &mut Collector) -> Result<(), Failure> {
    use crate::program::{Op, Program, Sc, Var};
    use crate::scalars::ScalarSpec;
    let mut ops = vec![];
    if kind == 0 {
        for _ in 0..65_536 {
            ops.push(Op::Commit { v: ScalarSpec::Zero, blind: ScalarSpec::Zero });
        }
        for i in 0..4u64 {
            ops.push(Op::Commit { v: ScalarSpec::Rand(i), blind: ScalarSpec::Rand(50 + i) });
        }
        for i in 0..3u64 {
            ops.push(Op::AllocMul { l: Sc::C(ScalarSpec::Rand(7 + i)), r: Sc::C(ScalarSpec::Small(2 + i)) });
        }
        for j in 0..4usize {
            ops.push(Op::Constrain { lc: vec![(Var::Com(65_536 + j), Sc::C(ScalarSpec::Rand(j as u64))), (Var::Com(j), Sc::C(ScalarSpec::One)), (Var::L(j % 3), Sc::C(ScalarSpec::Half))], err: None, base: None });
        }
    } else if kind >= 2 {
        // `multiply` whose operands are very long expressions (257, 1023, 4099, 66 001 terms) over
        // commitments, earlier wires and constants, in both phases; the output is then constrained
        let nterms = [257usize, 1023, 4099, 66_001][(kind as usize - 2) % 4];
        ops.push(Op::Commit { v: ScalarSpec::Rand(1), blind: ScalarSpec::Rand(2) });
        ops.push(Op::Commit { v: ScalarSpec::Small(7), blind: ScalarSpec::Rand(3) });
        ops.push(Op::AllocMul { l: Sc::C(ScalarSpec::Rand(3)), r: Sc::C(ScalarSpec::Small(4)) });
        let vars = [Var::Com(0), Var::L(0), Var::R(0), Var::Com(1), Var::O(0), Var::One];
        let long = |off: usize| -> Vec<(Var, Sc)> { (0..nterms).map(|t| (vars[(t + off) % vars.len()], Sc::C(ScalarSpec::Small(1 + ((t * 7 + off) % 13) as u64)))).collect() };
        ops.push(Op::Mul { left: long(0), right: long(3) });
        ops.push(Op::Constrain { lc: vec![(Var::O(1), Sc::C(ScalarSpec::One))], err: None, base: None });
        ops.push(Op::Closure(vec![
            Op::Challenge { label: 0 },
            Op::Mul { left: long(1), right: vec![(Var::L(1), Sc::MulReg(ScalarSpec::One, 0))] },
            Op::Constrain { lc: vec![(Var::O(2), Sc::C(ScalarSpec::Small(3))), (Var::L(2), Sc::C(ScalarSpec::MinusOne))], err: None, base: None },
        ]));
    } else {
        ops.push(Op::Commit { v: ScalarSpec::Rand(1), blind: ScalarSpec::Rand(2) });
        ops.push(Op::AllocMul { l: Sc::C(ScalarSpec::Rand(3)), r: Sc::C(ScalarSpec::Rand(4)) });
        for q in 0..70_000u64 {
            let lc = match q % 3 {
                0 => vec![(Var::Com(0), Sc::C(ScalarSpec::Small(1 + q % 9)))],
                1 => vec![(Var::L(0), Sc::C(ScalarSpec::Small(1 + q % 5))), (Var::O(0), Sc::C(ScalarSpec::MinusOne))],
                _ => vec![(Var::One, Sc::C(ScalarSpec::Small(q % 4)))],
            };
            ops.push(Op::Constrain { lc, err: None, base: None });
        }
    }
    let prog = Program { curve, tlabel: 1, pre: vec![], ops, owned: false, cap_p: Cap::Exact, cap_v: Cap::Exact, party_cap: 1, seed: 3, pc: 0, gens: 0 };
    let r = with_curve!(curve, G => {
        let p = run_prover::<G>(&prog, &ProveOpts::default());
        match p.proof.as_ref() {
            None => Err(format!("prove failed: {:?} {:?}", p.err, p.panic)),
            Some(pf) => {
                let v = run_verifier::<G>(&prog, &p.commitments, pf, &VerifyOpts::default());
                if v.accepted() { Ok(()) } else { Err(format!("verify = {}", v.verdict())) }
            }
        }
    });
    col.class(if kind == 0 { "more-than-2^16-commitments" } else if kind == 1 { "more-than-2^16-constraints" } else { "multiply-with-very-long-operands" });
    col.nontrivial(crate::runner::fp_of(&(curve, "extreme", kind)));
    r.map_err(|e| Failure::new("C01:extreme", format!("{} on {}: {}", if kind == 0 { "65 540 commitments" } else if kind == 1 { "70 000 constraints" } else { "multiply with very long operands" }, curve.name(), e), json!({"kind": kind, "curve": curve.name()})))
}

fn dispatch(sub: &str, bytes: &[u8], col: &mut Collector) -> Result<(), Failure> {
    let cname = sub.split('/').nth(1).unwrap_or("secq256k1");
    let curve = Curve::from_name(cname).unwrap_or(Curve::Secq);
    let cfg = cfg_for(sub);
    with_curve!(curve, G => case::<G>(bytes, col, &cfg))
}

pub fn replay(sub: &str, bytes: &[u8], col: &mut Collector) -> Result<(), Failure> {
    if sub == "c01/extreme" && bytes.len() == 2 {
        return extreme(Curve::ALL[bytes[0] as usize % 3], bytes[1], col);
    }
    if sub == "c01/huge" && bytes.len() == 3 {
        return huge(Curve::ALL[bytes[0] as usize % 3], (bytes[1] as usize) << 8 | bytes[2] as usize, col);
    }
    dispatch(sub, bytes, col)
}

pub fn run(tier: &str, seed: u64) -> i32 {
    let mut rep = Report::new("C01", tier, seed);
    rep.rule = "circuit programs decoded from proptest-generated choice bytes (call sequences over commit / allocate / allocate_multiplier / multiply / constrain / transcript data / randomized closures, satisfiable by construction, scalar classes over the full field, independent prover/verifier capacities ≥ padded size); non-trivial = has a constraint over wires or commitments, or is a steered shape (zero gates, both phases, open half-gate at a phase end); distinct = hash of the whole program".into();
    rep.assumptions = vec![
        "the circuit model (harness/src/model.rs) decides 'satisfied'; cases it calls unsatisfied are skipped and counted".into(),
        "variables are the handles returned by the API, except deliberately constructed never-returned wires".into(),
    ];
    let n = super::scale(tier, 2500, 25000);
    for c in Curve::ALL {
        if !rep.outcome.found.is_empty() {
            break;
        }
        let sub = format!("c01/{}", c.name());
        rep.outcome.merge(replay_corpus("C01", &sub, &|b, col| dispatch(&sub, b, col)));
        rep.outcome.merge(search(&sub, seed, n, 600, &|b, col| dispatch(&sub, b, col)));
        // size-biased tail: circuits of up to 130 gates (k up to 8)
        let subl = format!("c01/{}/large", c.name());
        let nl = super::scale(tier, 48, 400);
        rep.outcome.merge(search(&subl, seed, nl, 900, &|b, col| dispatch(&subl, b, col)));
        // wide circuits: hundreds of constraints and commitments
        let subw = format!("c01/{}/wide", c.name());
        let nw = super::scale(tier, 24, 200);
        rep.outcome.merge(crate::runner::search_len(&subw, seed, nw, 5000, 9000, &|b, col| dispatch(&subw, b, col)));
    }
    if tier == "thorough" && rep.outcome.found.is_empty() {
        // sizes around large powers of two (one circuit each, all three allocation paths, both phases)
        let mut items = vec![];
        for c in Curve::ALL {
            for n in [127usize, 128, 129, 255, 256, 257, 511, 512, 513, 1023, 1024] {
                items.push((c, n));
            }
        }
        let o = crate::runner::enumerate("c01/huge", &items, &|(c, n)| vec![c.index() as u8, (*n >> 8) as u8, *n as u8], &|(c, n), col| huge(*c, *n, col));
        rep.outcome.merge(o);
        rep.outcome.exhaustive = false;
    }
    if rep.outcome.found.is_empty() {
        let curves: Vec<Curve> = if tier == "thorough" { Curve::ALL.to_vec() } else { vec![Curve::ALL[(seed % 3) as usize]] };
        let items: Vec<(Curve, u8)> = curves.iter().flat_map(|c| [(*c, 0u8), (*c, 1u8), (*c, 2), (*c, 3), (*c, 4), (*c, 5)]).collect();
        let o = crate::runner::enumerate("c01/extreme", &items, &|(c, k)| vec![c.index() as u8, *k], &|(c, k), col| extreme(*c, *k, col));
        rep.outcome.merge(o);
        rep.outcome.exhaustive = false;
    }
    for c in ["zero-gates", "both-phases", "phase2-only", "half-open-end1", "commit-after-constrain", "capP-at-threshold", "capV-at-threshold", "owned-transcript", "pow2+1-gates", "single-alloc", "custom-pedersen-bases", "chained-second-proof"] {
        rep.required_classes.push((c.to_string(), 0.02));
    }
    rep.finish()
}
