//! C05 — statement and context binding: a proof verifies only for its own statement.
use crate::choices::Choices;
use crate::curves::{Curve, CurveTag};
use crate::drive::{prog_pc, run_batch, run_prover, run_verifier, BatchMember, ProveOpts, VerifyOpts};
use crate::program::{gen_program, Cap, GenCfg, Op, Program, Sc, Var, TLABELS, ULABELS};
use crate::props::c02::{constrain_sites, list_mut, lists, ListRef};
use crate::props::c08::rand_point;
use crate::runner::{fp_of, replay_corpus, search, Collector, Failure, Report};
use crate::scalars::ScalarSpec;
use crate::with_curve;
use ark_bulletproofs::PedersenGens;
use ark_ec::{AffineRepr, CurveGroup};
use serde_json::json;

#[derive(PartialEq, Clone, Copy, Debug)]
enum Expect {
    /// the deviation changes bound context: must be rejected
    Context,
    /// must be rejected iff the model finds the deviated statement unsatisfied
    IfUnsatisfied,
    /// nothing could be changed (e.g. no commitment to swap): skip
    NotApplicable,
    /// decided when the deviation was made (true: must be rejected)
    Decided(bool),
}

struct Deviation<G: AffineRepr> {
    prog: Program,
    commitments: Vec<G>,
    pc: Option<PedersenGens<G>>,
    kind: String,
    expect: Expect,
}

fn tdata_sites(prog: &Program) -> Vec<(ListRef, usize)> {
    let mut v = vec![];
    for l in lists(prog) {
        let ops: &Vec<Op> = match l {
            None => &prog.ops,
            Some(i) => match &prog.ops[i] {
                Op::Closure(b) => b,
                _ => unreachable!(),
            },
        };
        for (j, op) in ops.iter().enumerate() {
            if matches!(op, Op::TData { .. }) {
                v.push((l, j));
            }
        }
    }
    v
}

fn strip_com(lc: &mut Vec<(Var, Sc)>, j: usize) {
    lc.retain(|(v, _)| *v != Var::Com(j));
}

fn deviate<G: CurveTag>(ch: &mut Choices, prog: &Program, commitments: &[G], pm: &crate::model::Model<<G as AffineRepr>::ScalarField>) -> Deviation<G> {
    let mut p = prog.clone();
    let mut c = commitments.to_vec();
    let m = c.len();
    let pc = prog_pc::<G>(prog);
    let na = |kind: &str| Deviation { prog: prog.clone(), commitments: commitments.to_vec(), pc: None, kind: kind.into(), expect: Expect::NotApplicable };
    let kind = ch.weighted(&[12, 9, 7, 7, 16, 6, 9, 12, 7, 7, 8]);
    match kind {
        // a different commitment
        0 => {
            if m == 0 {
                return na("different-commitment");
            }
            let j = ch.below(m);
            let how = ch.below(9);
            let new: G = match how {
                0 => (c[j].into_group() + pc.B.into_group()).into_affine(),
                1 => (c[j].into_group() + pc.B_blinding.into_group()).into_affine(),
                2 => rand_point::<G>(ch.u16() as u64),
                3 => c[(j + 1) % m],
                4 => (-c[j].into_group()).into_affine(),
                5 => G::same_x_other_y(&c[j]).unwrap_or(c[j]),
                6 => (c[j].into_group() + c[j].into_group()).into_affine(),
                8 => G::off_curve_twin(&c[j]).unwrap_or(c[j]),
                _ => match crate::props::c13::small_order_point::<G>() {
                    Some(t) => (c[j].into_group() + t.into_group()).into_affine(),
                    None => (c[j].into_group() - pc.B.into_group()).into_affine(),
                },
            };
            if new == c[j] {
                return na("different-commitment");
            }
            c[j] = new;
            Deviation { prog: p, commitments: c, pc: None, kind: format!("different-commitment:{}", ["V+B", "V+B_blinding", "random", "another V", "-V", "same x other y", "2V", "V+T / V-B", "off-curve object with the same compressed encoding"][how]), expect: Expect::Context }
        }
        // an extra commitment
        1 => {
            let dup = m > 0 && ch.chance(128);
            let newc: G = if dup { c[ch.below(m)] } else { rand_point::<G>(ch.u16() as u64) };
            // appended after the last commit op, or inserted before the first
            let commit_pos: Vec<usize> = p.ops.iter().enumerate().filter(|(_, o)| matches!(o, Op::Commit { .. })).map(|(i, _)| i).collect();
            let append = commit_pos.is_empty() || ch.chance(160);
            if append {
                let at = commit_pos.last().map(|i| i + 1).unwrap_or(0);
                p.ops.insert(at, Op::Commit { v: ScalarSpec::Zero, blind: ScalarSpec::Zero });
                c.push(newc);
            } else {
                p.ops.insert(commit_pos[0], Op::Commit { v: ScalarSpec::Zero, blind: ScalarSpec::Zero });
                c.insert(0, newc);
            }
            Deviation { prog: p, commitments: c, pc: None, kind: format!("extra-commitment:{}:{}", if dup { "duplicate" } else { "fresh" }, if append { "appended" } else { "inserted-first" }), expect: Expect::Context }
        }
        // a missing commitment: the last one, together with every term that mentions it
        2 => {
            if m == 0 {
                return na("missing-commitment");
            }
            let last = p.ops.iter().rposition(|o| matches!(o, Op::Commit { .. })).unwrap();
            p.ops.remove(last);
            c.pop();
            let j = m - 1;
            for op in p.ops.iter_mut() {
                let fix = |op: &mut Op| match op {
                    Op::Constrain { lc, base, .. } => {
                        strip_com(lc, j);
                        if let Some(b) = base {
                            strip_com(b, j);
                        }
                    }
                    Op::Mul { left, right } => {
                        strip_com(left, j);
                        strip_com(right, j);
                    }
                    _ => {}
                };
                if let Op::Closure(b) = op {
                    for o in b.iter_mut() {
                        fix(o);
                    }
                } else {
                    fix(op);
                }
            }
            Deviation { prog: p, commitments: c, pc: None, kind: "missing-commitment".into(), expect: Expect::Context }
        }
        // reordered distinct commitments
        3 => {
            if m < 2 {
                return na("reordered-commitments");
            }
            let i = ch.below(m);
            let mut j = ch.below(m - 1);
            if j >= i {
                j += 1;
            }
            if c[i] == c[j] {
                return na("reordered-commitments");
            }
            c.swap(i, j);
            Deviation { prog: p, commitments: c, pc: None, kind: "reordered-commitments".into(), expect: Expect::Context }
        }
        // a changed coefficient or constant in an operand of `multiply` (the proof's assignment
        // decides: it fits the changed gate only if the operand still evaluates to the same value)
        4 if ch.chance(70) && p.ops.iter().any(|o| matches!(o, Op::Mul { .. }) || matches!(o, Op::Closure(b) if b.iter().any(|x| matches!(x, Op::Mul { .. })))) => {
            let mut sites: Vec<(ListRef, usize)> = vec![];
            for l in crate::props::c02::lists(&p) {
                let ops: &Vec<Op> = match l {
                    None => &p.ops,
                    Some(k) => match &p.ops[k] {
                        Op::Closure(b) => b,
                        _ => unreachable!(),
                    },
                };
                for (j, op) in ops.iter().enumerate() {
                    if matches!(op, Op::Mul { .. }) {
                        sites.push((l, j));
                    }
                }
            }
            // prefer gates whose two operands name the same variables in the same order
            let related: Vec<(ListRef, usize)> = sites
                .iter()
                .copied()
                .filter(|(l, j)| {
                    let ops: &Vec<Op> = match l {
                        None => &p.ops,
                        Some(k) => match &p.ops[*k] {
                            Op::Closure(b) => b,
                            _ => unreachable!(),
                        },
                    };
                    matches!(&ops[*j], Op::Mul { left, right } if !left.is_empty() && left.len() == right.len() && left.iter().zip(right.iter()).all(|(a, b)| a.0 == b.0))
                })
                .collect();
            let pool = if !related.is_empty() && ch.chance(200) { &related } else { &sites };
            let site = pool[ch.below(pool.len())];
            let right_side = ch.chance(128);
            let d = ScalarSpec::gen_nonzero(ch);
            let mut decided = false;
            let mut what = "constant-added";
            if let Op::Mul { left, right } = &mut list_mut(&mut p, site.0)[site.1] {
                let lc = if right_side { right } else { left };
                let before = pm.eval_terms(&pm.resolve(lc));
                if !lc.is_empty() && ch.chance(170) {
                    let t = ch.below(lc.len());
                    lc[t].1 = match &lc[t].1 {
                        Sc::C(ScalarSpec::One) => Sc::C(ScalarSpec::Small(2)),
                        Sc::C(ScalarSpec::Small(k)) => Sc::C(ScalarSpec::Small(k + 1)),
                        _ => Sc::C(d),
                    };
                    what = "coefficient";
                } else {
                    lc.push((Var::One, Sc::C(d)));
                }
                decided = pm.eval_terms(&pm.resolve(lc)) != before;
            }
            Deviation { prog: p, commitments: c, pc: None, kind: format!("multiply-operand-changed:{}:{}", what, if right_side { "right" } else { "left" }), expect: Expect::Decided(decided) }
        }
        // a changed coefficient or constant in a constraint
        4 => {
            let sites = constrain_sites(&p);
            if sites.is_empty() {
                return na("constraint-changed");
            }
            // prefer constraints over committed values
            let over_com: Vec<(ListRef, usize)> = sites
                .iter()
                .copied()
                .filter(|(l, i)| {
                    let ops: &Vec<Op> = match l {
                        None => &p.ops,
                        Some(k) => match &p.ops[*k] {
                            Op::Closure(b) => b,
                            _ => unreachable!(),
                        },
                    };
                    matches!(&ops[*i], Op::Constrain { lc, .. } if lc.iter().any(|(v, _)| matches!(v, Var::Com(_))))
                })
                .collect();
            // constraints over committed values that were spelled before the commitments existed
            let fwd_com: Vec<(ListRef, usize)> = over_com
                .iter()
                .copied()
                .filter(|(l, i)| {
                    let ops: &Vec<Op> = match l {
                        None => &p.ops,
                        Some(k) => match &p.ops[*k] {
                            Op::Closure(b) => b,
                            _ => unreachable!(),
                        },
                    };
                    crate::program::is_forward(&ops[*i])
                })
                .collect();
            let forced = !fwd_com.is_empty() && ch.chance(150);
            let pool = if forced { &fwd_com } else if !over_com.is_empty() && ch.chance(200) { &over_com } else { &sites };
            let site = pool[ch.below(pool.len())];
            let d = ScalarSpec::gen_nonzero(ch);
            let mut what = "constant";
            if let Op::Constrain { lc, err, base } = &mut list_mut(&mut p, site.0)[site.1] {
                let com_terms: Vec<usize> = lc.iter().enumerate().filter(|(_, (v, _))| matches!(v, Var::Com(_))).map(|(i, _)| i).collect();
                if !com_terms.is_empty() && (forced || ch.chance(150)) {
                    // coefficient on a committed value: the constant stays what it was
                    if base.is_none() {
                        *base = Some(lc.clone());
                    }
                    let t = com_terms[ch.below(com_terms.len())];
                    lc[t].1 = match &lc[t].1 {
                        Sc::C(ScalarSpec::One) => Sc::C(ScalarSpec::Small(2)),
                        Sc::C(ScalarSpec::Small(k)) => Sc::C(ScalarSpec::Small(k + 1)),
                        _ => Sc::C(d),
                    };
                    what = "coefficient-on-committed-value";
                } else {
                    *err = Some(d);
                }
            }
            Deviation { prog: p, commitments: c, pc: None, kind: format!("constraint-changed:{}", what), expect: Expect::IfUnsatisfied }
        }
        // transcript label
        5 => {
            p.tlabel = ((p.tlabel as usize + 1 + ch.below(TLABELS.len() - 1)) % TLABELS.len()) as u8;
            Deviation { prog: p, commitments: c, pc: None, kind: "transcript-label".into(), expect: Expect::Context }
        }
        // pre-construction application data changed / dropped / added
        6 => {
            let how = if p.pre.is_empty() { 2 } else { ch.below(3) };
            match how {
                0 => {
                    let i = ch.below(p.pre.len());
                    if ch.chance(128) {
                        p.pre[i].1.push(ch.byte());
                    } else {
                        p.pre[i].0 = ((p.pre[i].0 as usize + 1) % ULABELS.len()) as u8;
                    }
                }
                1 => {
                    let i = ch.below(p.pre.len());
                    p.pre.remove(i);
                }
                _ => {
                    let n = ch.below(4);
                    p.pre.push((ch.below(ULABELS.len()) as u8, ch.bytes(n)));
                }
            }
            Deviation { prog: p, commitments: c, pc: None, kind: format!("pre-construction-data:{}", ["changed", "dropped", "added"][how]), expect: Expect::Context }
        }
        // application data appended during construction: changed / dropped / added / moved
        7 => {
            let sites = tdata_sites(&p);
            let how = if sites.is_empty() { 2 } else { ch.below(4) };
            let mut phase = "phase1";
            match how {
                0 => {
                    let s = sites[ch.below(sites.len())];
                    if s.0.is_some() {
                        phase = "phase2";
                    }
                    if let Op::TData { bytes, .. } = &mut list_mut(&mut p, s.0)[s.1] {
                        if bytes.is_empty() || ch.chance(128) {
                            bytes.push(1 + ch.byte() / 2);
                        } else {
                            let i = ch.below(bytes.len());
                            bytes[i] ^= 1 << ch.below(8);
                        }
                    }
                }
                1 => {
                    let s = sites[ch.below(sites.len())];
                    if s.0.is_some() {
                        phase = "phase2";
                    }
                    list_mut(&mut p, s.0).remove(s.1);
                }
                2 => {
                    let ls = lists(&p);
                    let l = ls[ch.below(ls.len())];
                    if l.is_some() {
                        phase = "phase2";
                    }
                    let list = list_mut(&mut p, l);
                    let at = ch.below(list.len() + 1);
                    let n = ch.below(4);
                    list.insert(at, Op::TData { label: ch.below(ULABELS.len()) as u8, bytes: ch.bytes(n) });
                }
                _ => {
                    // move a first-phase datum across a commit (or across a challenge in a closure)
                    let s = sites[ch.below(sites.len())];
                    if s.0.is_some() {
                        phase = "phase2";
                    }
                    let list = list_mut(&mut p, s.0);
                    let is_barrier = |o: &Op| matches!(o, Op::Commit { .. } | Op::Challenge { .. } | Op::TData { .. });
                    let target = (0..list.len()).filter(|i| *i != s.1 && is_barrier(&list[*i])).min_by_key(|i| (*i as isize - s.1 as isize).abs());
                    let Some(t) = target else { return na("construction-data:moved") };
                    if list[t] == list[s.1] {
                        return na("construction-data:moved");
                    }
                    let op = list.remove(s.1);
                    // re-insert on the other side of the barrier
                    let t2 = if t > s.1 { t } else { t };
                    list.insert(t2, op);
                    if *list == *match s.0 {
                        None => &prog.ops,
                        Some(i) => match &prog.ops[i] {
                            Op::Closure(b) => b,
                            _ => unreachable!(),
                        },
                    } {
                        return na("construction-data:moved");
                    }
                }
            }
            Deviation { prog: p, commitments: c, pc: None, kind: format!("construction-data:{}:{}", ["changed", "dropped", "added", "moved"][how], phase), expect: Expect::Context }
        }
        // blinding base replaced
        8 => Deviation { prog: p, commitments: c, pc: Some(PedersenGens { B: pc.B, B_blinding: rand_point::<G>(9000 + ch.byte() as u64) }), kind: "blinding-base".into(), expect: Expect::Context },
        // value base replaced (asserted when the circuit has ≥ 1 gate)
        9 => {
            let gates = prog.shape().n();
            Deviation {
                prog: p,
                commitments: c,
                pc: Some(PedersenGens { B: rand_point::<G>(7000 + ch.byte() as u64), B_blinding: pc.B_blinding }),
                kind: format!("value-base:{}", if gates > 0 { "with-gates" } else { "no-gates(no expectation)" }),
                expect: if gates > 0 { Expect::Context } else { Expect::NotApplicable },
            }
        }
        // a constraint added or dropped
        _ => {
            let sites = constrain_sites(&p);
            if !sites.is_empty() && ch.chance(100) {
                let s = sites[ch.below(sites.len())];
                list_mut(&mut p, s.0).remove(s.1);
                // dropping a satisfied constraint leaves a satisfied system: no expectation
                Deviation { prog: p, commitments: c, pc: None, kind: "constraint-dropped(no expectation)".into(), expect: Expect::IfUnsatisfied }
            } else {
                let mut lc = vec![];
                if m > 0 {
                    lc.push((Var::Com(ch.below(m)), Sc::C(ScalarSpec::gen_nonzero(ch))));
                }
                p.ops.push(Op::Constrain { lc, err: Some(ScalarSpec::gen_nonzero(ch)), base: None });
                Deviation { prog: p, commitments: c, pc: None, kind: "violated-constraint-added".into(), expect: Expect::IfUnsatisfied }
            }
        }
    }
}

fn case<G: CurveTag>(bytes: &[u8], col: &mut Collector) -> Result<(), Failure> {
    let cut = bytes.len().min(40);
    let mut chi = Choices::new(&bytes[..cut]);
    let mut ch = Choices::new(&bytes[cut..]);
    let cfg = GenCfg { max_ops1: 12, max_closures: 2, max_ops2: 7, max_commits: 4, big_gates: 0, max_terms: 4, wide: false };
    let mut prog = gen_program(&mut ch, G::CURVE, &cfg);
    prog.cap_v = Cap::Big;
    let p = run_prover::<G>(&prog, &ProveOpts::default());
    let Some(proof) = p.proof.as_ref() else {
        col.note("prover failed (left to C01)");
        return Ok(());
    };
    let base = run_verifier::<G>(&prog, &p.commitments, proof, &VerifyOpts::default());
    if !base.accepted() {
        col.note("baseline not accepted (left to C01)");
        return Ok(());
    }
    if chi.chance(40) {
        // interchangeability: same structure, different committed values
        if p.commitments.is_empty() {
            col.class("trivial:interchange-without-commitments");
            return Ok(());
        }
        let mut prog2 = prog.clone();
        let mut bump = 0u64;
        for op in prog2.ops.iter_mut() {
            if let Op::Commit { v, blind } = op {
                bump += 1;
                *v = ScalarSpec::Rand(50000 + bump + chi.byte() as u64);
                *blind = ScalarSpec::Rand(60000 + bump);
            }
        }
        prog2.seed ^= 0x55;
        let p2 = run_prover::<G>(&prog2, &ProveOpts::default());
        let Some(proof2) = p2.proof.as_ref() else { return Ok(()) };
        if p2.commitments == p.commitments {
            return Ok(());
        }
        let ok2 = run_verifier::<G>(&prog2, &p2.commitments, proof2, &VerifyOpts::default());
        let x12 = run_verifier::<G>(&prog2, &p2.commitments, proof, &VerifyOpts::default());
        let x21 = run_verifier::<G>(&prog, &p.commitments, proof2, &VerifyOpts::default());
        if ok2.accepted() && (x12.accepted() || x21.accepted()) {
            return Err(Failure::new(
                "C05:interchangeable",
                format!("proofs of two different statements are interchangeable: proof1@statement2 = {}, proof2@statement1 = {}", x12.verdict(), x21.verdict()),
                json!({"program": prog.to_json(), "second_statement": prog2.to_json()}),
            ));
        }
        col.class("interchange");
        col.nontrivial(fp_of(&(prog.fingerprint(), "interchange")));
        return Ok(());
    }
    let d = deviate::<G>(&mut chi, &prog, &p.commitments, &p.model);
    if d.expect == Expect::NotApplicable {
        col.class(&format!("n/a:{}", d.kind.split(':').next().unwrap_or("")));
        return Ok(());
    }
    let v = run_verifier::<G>(&d.prog, &d.commitments, proof, &VerifyOpts { pc_gens: d.pc, ..Default::default() });
    let must_reject = match d.expect {
        Expect::Context => true,
        Expect::IfUnsatisfied => !v.model.satisfied(),
        Expect::NotApplicable => false,
        Expect::Decided(b) => b,
    };
    if !must_reject {
        col.class(&format!("trivial:still-satisfied:{}", d.kind.split(':').next().unwrap_or("")));
        return Ok(());
    }
    if v.accepted() {
        return Err(Failure::new(
            format!("C05:accepted:{}", d.kind.split(':').next().unwrap_or("")),
            format!("a proof for one statement was accepted for a different one: {}", d.kind),
            json!({"proved_statement": prog.to_json(), "verifier_statement": d.prog.to_json(), "deviation": d.kind,
                   "verifier_commitments_changed": d.commitments != p.commitments, "bases_replaced": d.pc.is_some()}),
        ));
    }
    if v.panic.is_some() {
        col.note("verifier panicked instead of rejecting (left to C08)");
    }
    // the same holds when the deviated statement is checked through batch verification:
    // alone, beside the honest instance, and together with a second deviation that would
    // cancel the first one if the instances were not weighted independently
    if d.pc.is_none() {
        let honest = BatchMember { prog: &prog, commitments: &p.commitments, proof };
        let dev = BatchMember { prog: &d.prog, commitments: &d.commitments, proof };
        let mut batches: Vec<(&str, Vec<BatchMember<G>>)> = vec![
            ("alone", vec![BatchMember { prog: &d.prog, commitments: &d.commitments, proof }]),
            ("beside-the-honest-instance", vec![honest, dev]),
        ];
        // opposite constant deviations on the same constraint (only for plain constant changes)
        let mut opposite: Option<Program> = None;
        if d.kind == "constraint-changed:constant" || d.kind == "violated-constraint-added" {
            let mut o = d.prog.clone();
            let mut done = false;
            let flip = |e: &ScalarSpec| -> Option<ScalarSpec> {
                Some(match e {
                    ScalarSpec::One => ScalarSpec::MinusOne,
                    ScalarSpec::MinusOne => ScalarSpec::One,
                    ScalarSpec::Small(k) => ScalarSpec::NegSmall(*k),
                    ScalarSpec::NegSmall(k) => ScalarSpec::Small(*k),
                    _ => return None,
                })
            };
            for l in lists(&o) {
                for op in list_mut(&mut o, l).iter_mut() {
                    if let Op::Constrain { err: Some(e), .. } = op {
                        if let Some(f) = flip(e) {
                            *e = f;
                            done = true;
                        }
                    }
                }
            }
            if done {
                opposite = Some(o);
            }
        }
        if let Some(o) = opposite.as_ref() {
            batches.push((
                "with-the-opposite-deviation",
                vec![BatchMember { prog: &d.prog, commitments: &d.commitments, proof }, BatchMember { prog: o, commitments: &d.commitments, proof }],
            ));
        }
        // deviations that cancel under weights in a small integer ratio: constants off by
        // +a·3 and -b·3 at two batch positions (with or without an honest member in between)
        let mut scaled: Vec<Program> = vec![];
        if d.kind == "constraint-changed:constant" || d.kind == "violated-constraint-added" {
            for e in [ScalarSpec::Small(3), ScalarSpec::Small(6), ScalarSpec::Small(9), ScalarSpec::NegSmall(3), ScalarSpec::NegSmall(6), ScalarSpec::NegSmall(9)] {
                let mut o = d.prog.clone();
                for l in lists(&o) {
                    for op in list_mut(&mut o, l).iter_mut() {
                        if let Op::Constrain { err: Some(x), .. } = op {
                            *x = e.clone();
                        }
                    }
                }
                scaled.push(o);
            }
        }
        if scaled.len() == 6 {
            let m = |i: usize| BatchMember { prog: &scaled[i], commitments: &d.commitments, proof };
            let h = || BatchMember { prog: &prog, commitments: &p.commitments, proof };
            // indices: 0:+3 1:+6 2:+9 3:-3 4:-6 5:-9
            batches.push(("weighted-opposites(+2,-1)", vec![m(1), m(3)]));
            batches.push(("weighted-opposites(+1,-2)", vec![m(0), m(4)]));
            batches.push(("weighted-opposites(+3,honest,-1)", vec![m(2), h(), m(3)]));
            batches.push(("weighted-opposites(+1,honest,-3)", vec![m(0), h(), m(5)]));
            batches.push(("weighted-opposites(+3,-2)", vec![m(2), m(4)]));
        }
        for (name, members) in batches {
            let (r, pn) = run_batch::<G>(&members, 256, chi.byte() as u64);
            if pn.is_some() {
                col.note("batch_verify panicked (left to C08)");
                continue;
            }
            if matches!(r, Some(Ok(()))) {
                return Err(Failure::new(
                    format!("C05:batch-accepted:{}:{}", d.kind.split(':').next().unwrap_or(""), name),
                    format!("batch verification ({}) accepted a proof for a statement it was not made for: {}", name, d.kind),
                    json!({"proved_statement": prog.to_json(), "verifier_statement": d.prog.to_json(), "deviation": d.kind, "batch": name}),
                ));
            }
            col.class(&format!("batch:{}", name));
        }
    }
    let k = d.kind.split('(').next().unwrap_or("").to_string();
    col.class(&format!("dev:{}", k));
    col.nontrivial(fp_of(&(prog.fingerprint(), d.kind.clone())));
    col.sample(true, || json!({"proved_statement": prog.to_json(), "deviation": d.kind, "verdict_under_deviation": v.verdict()}));
    Ok(())
}

fn dispatch(sub: &str, bytes: &[u8], col: &mut Collector) -> Result<(), Failure> {
    let curve = Curve::from_name(sub.split('/').nth(1).unwrap_or("")).unwrap_or(Curve::Secq);
    with_curve!(curve, G => case::<G>(bytes, col))
}

/// Many contexts × one changed constant on the smallest statement (one commitment, V₀ = 7 against
/// V₀ = 8): a verifier that folds its checks with too short a weight accepts a fraction of them.
/// `chunk` selects a block of `per` context strings.
fn weight_probe<G: CurveTag>(chunk: usize, per: usize, col: &mut Collector) -> Result<(), Failure> {
    let mk = |ctx: u64, err: Option<ScalarSpec>| Program {
        curve: G::CURVE,
        tlabel: 0,
        pre: vec![(0, ctx.to_le_bytes().to_vec())],
        ops: vec![Op::Commit { v: ScalarSpec::Small(7), blind: ScalarSpec::Rand(1) }, Op::Constrain { lc: vec![(Var::Com(0), Sc::C(ScalarSpec::One))], err, base: None }],
        owned: false,
        cap_p: Cap::Exact,
        cap_v: Cap::Exact,
        party_cap: 1,
        seed: 5,
        pc: 0,
        gens: 0,
    };
    for i in 0..per {
        let ctx = (chunk * per + i) as u64;
        let honest = mk(ctx, None);
        let p = run_prover::<G>(&honest, &ProveOpts::default());
        let Some(proof) = p.proof.as_ref() else { continue };
        let other = mk(ctx, Some(ScalarSpec::One));
        let v = run_verifier::<G>(&other, &p.commitments, proof, &VerifyOpts::default());
        col.evals_add(1);
        if v.accepted() {
            return Err(Failure::new(
                "C05:accepted:constant-changed-in-some-context",
                format!("a proof for V0 = 7 is accepted for V0 = 8 under context #{}: the changed constant is caught only with a probability noticeably below one", ctx),
                json!({"proved_statement": honest.to_json(), "verifier_statement": other.to_json(), "context": ctx}),
            ));
        }
    }
    col.class("weight-probe");
    col.nontrivial(fp_of(&(G::CURVE, chunk, per, "probe")));
    Ok(())
}

pub fn replay(sub: &str, bytes: &[u8], col: &mut Collector) -> Result<(), Failure> {
    if sub == "c05/weight-probe" && bytes.len() == 5 {
        let chunk = (bytes[1] as usize) << 8 | bytes[2] as usize;
        let per = (bytes[3] as usize) << 8 | bytes[4] as usize;
        return with_curve!(Curve::ALL[bytes[0] as usize % 3], G => weight_probe::<G>(chunk, per, col));
    }
    dispatch(sub, bytes, col)
}

pub fn run(tier: &str, seed: u64) -> i32 {
    let mut rep = Report::new("C05", tier, seed);
    rep.rule = "accepted (program, proof) × one verifier-side deviation: different / extra / missing / reordered commitment; coefficient on a committed value or constant changed (model must find the deviated statement unsatisfied); violated constraint added; transcript label; pre-construction data changed / dropped / added; construction-time data changed / dropped / added / moved (both phases); blinding base replaced; value base replaced (only asserted with ≥ 1 gate); plus pairs of same-structure statements with different committed values cross-verified both ways. Non-trivial = deviation applied and classified as must-reject; distinct = (program, deviation)".into();
    rep.assumptions = vec![
        "constraint coefficients are bound only through the algebra; deviations the committed values still satisfy carry no expectation and are counted as trivial".into(),
        "the circuit model decides 'unsatisfied' for the deviated statement under the prover's witness".into(),
    ];
    let n = super::scale(tier, 2000, 20000);
    for c in Curve::ALL {
        if !rep.outcome.found.is_empty() {
            break;
        }
        let sub = format!("c05/{}", c.name());
        rep.outcome.merge(replay_corpus("C05", &sub, &|b, col| dispatch(&sub, b, col)));
        rep.outcome.merge(search(&sub, seed, n, 700, &|b, col| dispatch(&sub, b, col)));
    }
    // the smallest changed-constant deviation under many contexts (2^14.6 quick, 2^18.2 thorough)
    if rep.outcome.found.is_empty() {
        let (chunks, per) = if tier == "thorough" { (600usize, 500usize) } else { (100, 250) };
        let c = Curve::ALL[(seed % 3) as usize];
        let items: Vec<(Curve, usize, usize)> = (0..chunks).map(|k| (c, k, per)).collect();
        let mut o = crate::runner::enumerate("c05/weight-probe", &items, &|(c, k, p)| vec![c.index() as u8, (*k >> 8) as u8, *k as u8, (*p >> 8) as u8, *p as u8], &|(c, k, p), col| with_curve!(*c, G => weight_probe::<G>(*k, *p, col)));
        o.exhaustive = false;
        rep.outcome.merge(o);
    }
    for (c, f) in [
        ("dev:different-commitment:V+B", 0.003), ("dev:extra-commitment:fresh:appended", 0.005), ("dev:extra-commitment:duplicate:appended", 0.003), ("dev:missing-commitment", 0.01),
        ("dev:reordered-commitments", 0.005), ("dev:constraint-changed:constant", 0.02), ("dev:constraint-changed:coefficient-on-committed-value", 0.01),
        ("dev:transcript-label", 0.02), ("dev:pre-construction-data:added", 0.01), ("dev:construction-data:changed:phase1", 0.003), ("dev:construction-data:dropped:phase1", 0.003),
        ("dev:construction-data:added:phase2", 0.003), ("dev:blinding-base", 0.02), ("dev:value-base:with-gates", 0.02), ("interchange", 0.03), ("batch:beside-the-honest-instance", 0.2), ("batch:with-the-opposite-deviation", 0.01),
    ] {
        rep.required_classes.push((c.to_string(), f));
    }
    rep.finish()
}
