//! C09 — hiding: every commitment carries fresh independent blinding from the prover RNG.
use crate::choices::Choices;
use crate::curves::{Curve, CurveTag};
use crate::drive::{bp_gens, prog_pc, run_prover, CountingRng, ProveOpts, ProveOut};
use crate::mirror::{ProofMirror, POINT_NAMES};
use crate::program::{gen_program, Cap, GenCfg};
use crate::props::c03::extract_challenges;
use crate::runner::{replay_corpus, search, Collector, Failure, Report};
use crate::schedule::enc_scalar;
use crate::script::{decode_draws, encode_draws, rng_stream};
use crate::tlog::Event;
use crate::with_curve;
use ark_ec::{AffineRepr, CurveGroup};
use ark_ff::{Field, One, PrimeField, Zero};
use rand_core::RngCore;
use serde_json::{json, Value};
use std::collections::BTreeMap;

type Fr<G> = <G as AffineRepr>::ScalarField;

#[derive(Clone, Copy, Debug, PartialEq, Eq, PartialOrd, Ord, Hash)]
enum Gen {
    Blinding,
    G(usize),
    H(usize),
}

/// (index of the proof point 0..11, generator)
type Role = (usize, Gen);

fn mulg<G: AffineRepr>(p: &G, s: &Fr<G>) -> G::Group {
    p.mul_bigint(s.into_bigint())
}

fn case<G: CurveTag>(bytes: &[u8], col: &mut Collector, max_gates: usize, large: bool) -> Result<(), Failure> {
    let mut ch = Choices::new(bytes);
    let cfg = if large {
        GenCfg { max_ops1: 10, max_closures: 2, max_ops2: 6, max_commits: 3, big_gates: 150, max_terms: 4, wide: false }
    } else {
        GenCfg { max_ops1: 8, max_closures: 2, max_ops2: 5, max_commits: 3, big_gates: 0, max_terms: 4, wide: false }
    };
    let mut prog = gen_program(&mut ch, G::CURVE, &cfg);
    prog.cap_p = Cap::Big;
    let shape = prog.shape();
    if !large && shape.n() > max_gates {
        col.class("skipped:too-many-gates-for-probing");
        return Ok(());
    }
    if large && shape.n() <= 64 {
        col.class("skipped:not-large");
        return Ok(());
    }
    check_prog::<G>(prog, &mut ch, col, if large { 1 } else { 0 })
}

/// Two openings (v, r) and (v − 2, r + 1) of one commitment under bases with B_blinding = 2·B:
/// statement, transcript and external randomness are identical, only the blinding factor of
/// commitment j differs — the prover's RNG is keyed with it, so the first blinded point differs.
fn blinding_sensitivity<G: CurveTag>(prog: &crate::program::Program, js: &[usize], col: &mut Collector) -> Result<(), Failure> {
    use crate::program::Op;
    use crate::scalars::ScalarSpec;
    use ark_bulletproofs::PedersenGens;
    let def = crate::drive::pc_gens::<G>();
    let pc2 = PedersenGens { B: def.B, B_blinding: (def.B.into_group() + def.B.into_group()).into_affine() };
    // small known openings everywhere
    let mut base = prog.clone();
    let mut k = 0u64;
    for op in base.ops.iter_mut() {
        if let Op::Commit { v, blind } = op {
            *v = ScalarSpec::Small(10 + k);
            *blind = ScalarSpec::Small(5 + 3 * k);
            k += 1;
        }
    }
    let pa = run_prover::<G>(&base, &ProveOpts { pc_gens: Some(pc2), ..Default::default() });
    let Some(proof_a) = pa.proof.as_ref() else { return Ok(()) };
    let ma = ProofMirror::from_proof(proof_a);
    for &j in js {
        let mut alt = base.clone();
        let mut k = 0usize;
        for op in alt.ops.iter_mut() {
            if let Op::Commit { v, blind } = op {
                if k == j {
                    *v = ScalarSpec::Small(10 + k as u64 - 2);
                    *blind = ScalarSpec::Small(5 + 3 * k as u64 + 1);
                }
                k += 1;
            }
        }
        let pb = run_prover::<G>(&alt, &ProveOpts { pc_gens: Some(pc2), ..Default::default() });
        let Some(proof_b) = pb.proof.as_ref() else { continue };
        if pb.commitments != pa.commitments {
            col.note("blinding sensitivity: the two openings do not give the same commitment (not evaluated)");
            continue;
        }
        col.evals_add(1);
        let mb = ProofMirror::from_proof(proof_b);
        if ma.A_I1 == mb.A_I1 || ma.S1 == mb.S1 {
            return Err(Failure::new(
                "C09:rng-not-keyed-with-blinding",
                format!("two proofs of one statement ({} commitments) from the same transcript and external randomness, opened with different blinding factors for commitment #{}, carry the same A_I1 / S1: the prover RNG does not depend on that blinding factor", k, j),
                json!({"program": base.to_json(), "commitment": j, "bases": "B_blinding = 2*B", "openings": [[10 + j as u64, 5 + 3 * j as u64], [8 + j as u64, 6 + 3 * j as u64]]}),
            ));
        }
    }
    // runs of equal blinding factors: (…, r, r, s, …) and (…, r, s, s, …) open the same commitments
    // with different blinding vectors, so they key the RNG differently
    let m = k as usize;
    if m >= 3 {
        let with_blind = |j: usize, b: u64| -> crate::program::Program {
            let mut q = base.clone();
            let mut i = 0usize;
            for op in q.ops.iter_mut() {
                if let Op::Commit { v, blind } = op {
                    if i == j {
                        // V_j = (v_j + 2·b_j)·B stays what it is
                        let total = 10 + j as u64 + 2 * (5 + 3 * j as u64);
                        *blind = ScalarSpec::Small(b);
                        *v = ScalarSpec::Small(total - 2 * b);
                    }
                    i += 1;
                }
            }
            q
        };
        let mut js = vec![1usize, m - 2];
        js.dedup();
        for j in js {
            let (lo, hi) = (5 + 3 * (j as u64 - 1), 5 + 3 * (j as u64 + 1));
            let pa2 = run_prover::<G>(&with_blind(j, lo), &ProveOpts { pc_gens: Some(pc2), ..Default::default() });
            let pb2 = run_prover::<G>(&with_blind(j, hi), &ProveOpts { pc_gens: Some(pc2), ..Default::default() });
            let (Some(fa), Some(fb)) = (pa2.proof.as_ref(), pb2.proof.as_ref()) else { continue };
            if pa2.commitments != pb2.commitments || pa2.commitments != pa.commitments {
                col.note("blinding sensitivity (equal neighbours): the openings do not give the same commitments (not evaluated)");
                continue;
            }
            col.evals_add(1);
            let (xa, xb) = (ProofMirror::from_proof(fa), ProofMirror::from_proof(fb));
            if xa.A_I1 == xb.A_I1 || xa.S1 == xb.S1 {
                return Err(Failure::new(
                    "C09:rng-not-keyed-with-blinding",
                    format!("commitment #{} opened with the blinding factor of its left neighbour and with that of its right neighbour (same commitments, transcript and external randomness) gives the same A_I1 / S1: runs of equal blinding factors do not all reach the prover RNG", j),
                    json!({"program": base.to_json(), "commitment": j, "bases": "B_blinding = 2*B"}),
                ));
            }
        }
        col.class("blinding-sensitivity:equal-neighbours");
    }
    col.class("blinding-sensitivity");
    Ok(())
}

/// mode 0: every draw probed; 1: a sample of 14 probes; 2: circuits at scale (3 probes)
fn check_prog<G: CurveTag>(mut prog: crate::program::Program, ch: &mut Choices, col: &mut Collector, mode: u8) -> Result<(), Failure> {
    let large = mode >= 1;
    let shape = prog.shape();
    if shape.padded() > 256 {
        prog.cap_p = Cap::Exact;
    }
    let ch: &mut Choices = ch;
    let (n, n1, n2) = (shape.n(), shape.n1, shape.n2);
    let pj = |s: String| -> Value { json!({"program": prog.to_json(), "at": s}) };
    let p0 = run_prover::<G>(&prog, &ProveOpts { record: true, ..Default::default() });
    let Some(proof0) = p0.proof.as_ref() else {
        col.note("prover failed (left to C01)");
        return Ok(());
    };
    let m0 = ProofMirror::from_proof(proof0);

    // ---- 1. construction of the RNG ---------------------------------------------------
    let builds: Vec<(u64, u64)> = p0.log.iter().filter_map(|e| if let Event::BuildRng { id, rng_id } = e { Some((*id, *rng_id)) } else { None }).collect();
    if builds.len() != 1 || builds[0].0 != p0.main_id {
        return Err(Failure::new("C09:rng-not-transcript-bound", format!("expected exactly one RNG forked from the proof transcript, saw {:?}", builds), pj("build_rng".into())));
    }
    let rekeys: Vec<&Vec<u8>> = p0.log.iter().filter_map(|e| if let Event::Rekey { witness, .. } = e { Some(witness) } else { None }).collect();
    let want: Vec<Vec<u8>> = p0.model.v_blind.iter().map(enc_scalar).collect();
    let literal = want.iter().all(|w| rekeys.iter().any(|r| *r == w));
    if !literal {
        // the blinding factors do not enter the RNG one by one as plain encodings: decide by
        // behaviour instead (every blinding factor must still influence the RNG)
        let all: Vec<usize> = (0..want.len()).collect();
        blinding_sensitivity::<G>(&prog, &all, col)?;
        col.class("rekey-not-literal(sensitivity-checked)");
    } else if !want.is_empty() && ((mode == 2 && want.len() >= 1000) || (mode != 2 && ch.chance(if want.len() >= 3 { 110 } else { 40 }))) {
        let m = want.len();
        let mut js = vec![0, m / 2, m.saturating_sub(2), m - 1];
        js.sort();
        js.dedup();
        blinding_sensitivity::<G>(&prog, &js, col)?;
    }
    let fin: Vec<&Vec<u8>> = p0.log.iter().filter_map(|e| if let Event::Finalize { external, .. } = e { Some(external) } else { None }).collect();
    let mut ext = CountingRng::new(prog.seed, 1);
    let mut first32 = [0u8; 32];
    ext.fill_bytes(&mut first32);
    if fin.len() != 1 || p0.ext_bytes < 32 || fin[0].as_slice() != first32 {
        return Err(Failure::new("C09:rng-not-keyed-with-external-randomness", format!("the prover RNG was not finalized with 32 bytes of the caller's randomness ({} external bytes consumed)", p0.ext_bytes), pj("finalize".into())));
    }
    // every nonce must come out of that RNG: nothing else may be drawn from the caller's RNG
    if p0.ext_bytes != 32 {
        col.note("prover consumed more than 32 external bytes");
    }

    // a caller RNG that cannot deliver must not lead to a proof (one keyed without external randomness)
    if mode != 2 && ch.chance(40) {
        let pf = run_prover::<G>(&prog, &ProveOpts { failing_rng: true, ..Default::default() });
        if pf.proof.is_some() {
            return Err(Failure::new("C09:proof-without-external-randomness", "the prover emitted a proof although the caller's RNG failed to deliver any randomness", pj("failing external RNG".into())));
        }
        col.class("failing-external-rng");
    }

    // degenerate external randomness (all bytes equal) is still the caller's randomness: the
    // proof is a function of it like of any other
    if mode != 2 && ch.chance(30) {
        let c = [0u8, 0, 0xff, 1][ch.below(4)];
        let a = run_prover::<G>(&prog, &ProveOpts { constant_rng: Some(c), ..Default::default() });
        let b = run_prover::<G>(&prog, &ProveOpts { constant_rng: Some(c), ..Default::default() });
        if a.proof.is_some() && a.bytes != b.bytes {
            return Err(Failure::new("C09:not-reproducible", format!("two runs with the same (constant 0x{:02x}) external randomness give different proofs: the RNG is keyed with something other than the transcript, the blindings and the caller's randomness", c), pj("constant external RNG".into())));
        }
        if a.proof.is_some() && a.bytes == p0.bytes {
            return Err(Failure::new("C09:rng-not-keyed-with-external-randomness", "a proof made with constant external randomness equals the one made with the seeded source".to_string(), pj("constant external RNG".into())));
        }
        col.class("constant-external-rng");
    }

    // ---- 2. seed laws --------------------------------------------------------------------
    let p_same = if mode == 2 && n >= 2048 { None } else { Some(run_prover::<G>(&prog, &ProveOpts::default())) };
    if p_same.map(|p| p.bytes != p0.bytes).unwrap_or(false) {
        return Err(Failure::new("C09:not-reproducible", "the same external randomness does not reproduce the same proof", pj("same seed".into())));
    }
    let p_other = run_prover::<G>(&prog, &ProveOpts { seed: Some(prog.seed ^ 0x9e37_79b9), ..Default::default() });
    let Some(proof_o) = p_other.proof.as_ref() else { return Ok(()) };
    let mo = ProofMirror::from_proof(proof_o);
    let mut shared = vec![];
    for i in 0..m0.n_points() {
        let placeholder = (3..6).contains(&i) && n2 == 0;
        let (a, b) = (*m0.clone().point_mut(i), *mo.clone().point_mut(i));
        if placeholder {
            if !a.is_zero() || !b.is_zero() {
                col.note("second-phase placeholder is not the identity");
            }
        } else if a == b {
            shared.push(m0.point_name(i));
        }
    }
    for (i, nm) in crate::mirror::SCALAR_NAMES.iter().enumerate() {
        let fixed_by_statement = n == 0 && matches!(i, 0 | 3 | 4);
        if !fixed_by_statement && m0.scalars()[i] == mo.scalars()[i] {
            shared.push(nm.to_string());
        }
    }
    if !shared.is_empty() {
        return Err(Failure::new(
            format!("C09:shared-component:{}", shared[0].split('[').next().unwrap_or("")),
            format!("two proofs of the same statement under different external randomness share {:?}", shared),
            pj("seed law".into()),
        ));
    }

    // ---- 3. draws ------------------------------------------------------------------------
    let stream = rng_stream(&p0.log);
    // whatever the sampler does, 2n masking entries and 8 (11) blinding scalars that are fresh
    // and independent need at least that many field elements' worth of RNG output
    {
        let need_draws = 2 * n + 8 + if n2 > 0 { 3 } else { 0 };
        let min_bytes = need_draws * ((<Fr<G> as PrimeField>::MODULUS_BIT_SIZE as usize - 1) / 8);
        if stream.len() < min_bytes {
            return Err(Failure::new(
                "C09:too-little-randomness",
                format!("the prover drew {} bytes from its RNG; {} masking entries and blinding scalars that are fresh draws need at least {} ({}+{} gates)", stream.len(), need_draws, min_bytes, n1, n2),
                pj("RNG output consumed".into()),
            ));
        }
    }
    let Some(draws) = decode_draws::<Fr<G>>(&stream) else {
        col.note("RNG stream does not decode into whole draws: probes not evaluated");
        return finish(col, &prog, &shape, false);
    };
    for (i, d) in draws.iter().enumerate() {
        if d.is_zero() || draws[..i].contains(d) {
            return Err(Failure::new("C09:draws-not-fresh", format!("draw #{} is zero or repeats an earlier draw", i), pj("draws".into())));
        }
    }
    let Some(script0) = encode_draws(&draws) else {
        col.note("draws cannot be re-encoded: probes not evaluated");
        return finish(col, &prog, &shape, false);
    };
    let scripted = |script: Vec<u8>| -> Option<ProveOut<G>> {
        let p = run_prover::<G>(&prog, &ProveOpts { script: Some(script), ..Default::default() });
        let ok = p.script.map(|s| !s.exhausted && s.consumed == s.len).unwrap_or(false);
        if ok && p.proof.is_some() {
            Some(p)
        } else {
            None
        }
    };
    let Some(base) = scripted(script0) else {
        col.note("scripted replay not honoured: probes not evaluated");
        return finish(col, &prog, &shape, false);
    };
    if base.bytes != p0.bytes {
        col.note("scripted replay does not reproduce the proof: probes not evaluated");
        return finish(col, &prog, &shape, false);
    }

    // ---- 4. per-draw sensitivity probes -----------------------------------------------------
    let pc = prog_pc::<G>(&prog);
    let gens = bp_gens::<G>(shape.padded().max(256), prog.party_cap as usize);
    let gv: Vec<G> = gens.G(n.max(1), 1).cloned().collect();
    let hv: Vec<G> = gens.H(n.max(1), 1).cloned().collect();
    let which_gen = |diff: G| -> Option<Gen> {
        if diff == pc.B_blinding {
            return Some(Gen::Blinding);
        }
        for i in 0..n {
            if diff == gv[i] {
                return Some(Gen::G(i));
            }
            if diff == hv[i] {
                return Some(Gen::H(i));
            }
        }
        None
    };
    let groups: [&[usize]; 3] = [&[0, 1, 2], &[3, 4, 5], &[6, 7, 8, 9, 10]];
    let mut role_of_draw: BTreeMap<usize, Role> = BTreeMap::new();
    let mut unused = 0;
    // large circuits: a sample of the draws is probed (every probed draw must still hit at most
    // one generator of one commitment); small ones: every draw
    let probe_set: Vec<usize> = if large { (0..if mode == 2 { 2 } else { 14 }).map(|_| ch.below(draws.len())).collect() } else { (0..draws.len()).collect() };
    for j in probe_set {
        let mut d2 = draws.clone();
        d2[j] += Fr::<G>::one();
        let Some(script) = encode_draws(&d2) else { continue };
        let Some(pj2) = scripted(script) else {
            col.note("a probe run was not honoured");
            continue;
        };
        let mj = ProofMirror::from_proof(pj2.proof.as_ref().unwrap());
        let mut hit: Option<Vec<usize>> = None;
        for g in groups {
            let changed: Vec<usize> = g.iter().copied().filter(|i| m0.points()[*i] != mj.points()[*i]).collect();
            if !changed.is_empty() {
                hit = Some(changed);
                break;
            }
        }
        match hit {
            None => unused += 1,
            Some(changed) => {
                if changed.len() != 1 {
                    return Err(Failure::new(
                        "C09:draw-feeds-several-commitments",
                        format!("one RNG draw (#{}) changes {:?} at once: these commitments do not have independent blinding", j, changed.iter().map(|i| POINT_NAMES[*i]).collect::<Vec<_>>()),
                        pj(format!("probe {}", j)),
                    ));
                }
                let f = changed[0];
                let diff = (mj.points()[f].into_group() - m0.points()[f].into_group()).into_affine();
                match which_gen(diff) {
                    Some(g) => {
                        role_of_draw.insert(j, (f, g));
                    }
                    None => {
                        return Err(Failure::new(
                            format!("C09:draw-not-a-single-generator:{}", POINT_NAMES[f]),
                            format!("adding 1 to RNG draw #{} changes {} by something other than exactly one generator", j, POINT_NAMES[f]),
                            pj(format!("probe {}", j)),
                        ))
                    }
                }
            }
        }
    }
    if large {
        col.class(if mode == 2 { "scale:sampled-probes" } else { "large:sampled-probes" });
        col.evals_add(17);
        return finish(col, &prog, &shape, true);
    }
    // the required roles must be covered bijectively by distinct draws
    let mut required: Vec<Role> = vec![(0, Gen::Blinding), (1, Gen::Blinding), (2, Gen::Blinding)];
    for i in 0..n1 {
        required.push((2, Gen::G(i)));
        required.push((2, Gen::H(i)));
    }
    if n2 > 0 {
        required.extend([(3, Gen::Blinding), (4, Gen::Blinding), (5, Gen::Blinding)]);
        for i in n1..n {
            required.push((5, Gen::G(i)));
            required.push((5, Gen::H(i)));
        }
    }
    for t in 6..11 {
        required.push((t, Gen::Blinding));
    }
    let mut draw_of_role: BTreeMap<Role, Vec<usize>> = BTreeMap::new();
    for (j, r) in &role_of_draw {
        draw_of_role.entry(*r).or_default().push(*j);
    }
    for r in &required {
        match draw_of_role.get(r).map(|v| v.len()).unwrap_or(0) {
            1 => {}
            0 => {
                return Err(Failure::new(
                    format!("C09:role-without-fresh-draw:{}", POINT_NAMES[r.0]),
                    format!("no RNG draw feeds {} along {:?}: that commitment component is not freshly blinded / masked", POINT_NAMES[r.0], r.1),
                    pj(format!("roles found: {:?}", role_of_draw)),
                ))
            }
            _ => {
                return Err(Failure::new(
                    format!("C09:role-with-several-draws:{}", POINT_NAMES[r.0]),
                    format!("several draws feed {} along {:?}", POINT_NAMES[r.0], r.1),
                    pj(format!("roles found: {:?}", role_of_draw)),
                ))
            }
        }
    }
    for (r, js) in &draw_of_role {
        if !required.contains(r) {
            return Err(Failure::new(
                format!("C09:unexpected-role:{}", POINT_NAMES[r.0]),
                format!("draws {:?} feed {} along {:?}, which the protocol does not provide for", js, POINT_NAMES[r.0], r.1),
                pj("roles".into()),
            ));
        }
    }
    let d_of = |r: Role| -> Fr<G> { draws[draw_of_role[&r][0]] };

    // ---- 5. openings against the model witness ----------------------------------------------
    let w = &p0.model;
    let open = |range: std::ops::Range<usize>, l: &[Fr<G>], r: Option<&[Fr<G>]>, blind: Fr<G>| -> G {
        let mut acc = mulg(&pc.B_blinding, &blind);
        for i in range {
            acc += mulg(&gv[i], &l[i]);
            if let Some(r) = r {
                acc += mulg(&hv[i], &r[i]);
            }
        }
        acc.into_affine()
    };
    let zero_v = vec![Fr::<G>::zero(); n.max(1)];
    let mut s_l = zero_v.clone();
    let mut s_r = zero_v.clone();
    for i in 0..n {
        let f = if i < n1 { 2 } else { 5 };
        s_l[i] = d_of((f, Gen::G(i)));
        s_r[i] = d_of((f, Gen::H(i)));
    }
    let checks: Vec<(&str, G, G)> = {
        let mut v = vec![
            ("A_I1", m0.A_I1, open(0..n1, &w.a_l, Some(&w.a_r), d_of((0, Gen::Blinding)))),
            ("A_O1", m0.A_O1, open(0..n1, &w.a_o, None, d_of((1, Gen::Blinding)))),
            ("S1", m0.S1, open(0..n1, &s_l, Some(&s_r), d_of((2, Gen::Blinding)))),
        ];
        if n2 > 0 {
            v.push(("A_I2", m0.A_I2, open(n1..n, &w.a_l, Some(&w.a_r), d_of((3, Gen::Blinding)))));
            v.push(("A_O2", m0.A_O2, open(n1..n, &w.a_o, None, d_of((4, Gen::Blinding)))));
            v.push(("S2", m0.S2, open(n1..n, &s_l, Some(&s_r), d_of((5, Gen::Blinding)))));
        }
        v
    };
    for (name, got, exp) in checks {
        if got != exp {
            return Err(Failure::new(
                format!("C09:opening:{}", name),
                format!("{} is not the witness part plus (its own fresh draw)·B_blinding", name),
                pj(format!("opening of {}", name)),
            ));
        }
    }
    if let Some(chp) = extract_challenges::<G>(&p0.log, p0.main_id, p0.challenges.len()) {
        let (u, x) = (chp.u, chp.x);
        let (i2, o2, s2) = if n2 > 0 { (d_of((3, Gen::Blinding)), d_of((4, Gen::Blinding)), d_of((5, Gen::Blinding))) } else { (Fr::<G>::zero(), Fr::<G>::zero(), Fr::<G>::zero()) };
        let ib = d_of((0, Gen::Blinding)) + u * i2;
        let ob = d_of((1, Gen::Blinding)) + u * o2;
        let sb = d_of((2, Gen::Blinding)) + u * s2;
        if m0.e_blinding != x * (ib + x * (ob + x * sb)) {
            return Err(Failure::new("C09:e_blinding", "e_blinding != x·(i + x·(o + x·s)) of the identified blinding draws", pj("e_blinding".into())));
        }
        let (wl, wr, wo, wv, _) = w.flatten(chp.z);
        let mut tb = Fr::<G>::zero();
        for (t, e) in [(6usize, 1u64), (7, 3), (8, 4), (9, 5), (10, 6)] {
            tb += x.pow([e]) * d_of((t, Gen::Blinding));
        }
        let t2: Fr<G> = wv.iter().zip(w.v_blind.iter()).map(|(a, b)| *a * b).sum();
        tb += x * x * t2;
        if m0.t_x_blinding != tb {
            return Err(Failure::new("C09:t_x_blinding", "t_x_blinding != Σ x^i·τ_i + x²·Σ wV_j·ṽ_j of the identified blinding draws", pj("t_x_blinding".into())));
        }
        // the polynomial commitments open to t_i·B + τ_i·B̃ with the coefficients of <l(X), r(X)>
        if n <= 1 {
            // padded size 1: the final scalars reveal l(x), r(x)
            let (l, r) = if n == 0 {
                (Fr::<G>::zero(), -Fr::<G>::one())
            } else {
                let l = (w.a_l[0] + wr[0]) * x + w.a_o[0] * x * x + s_l[0] * x * x * x;
                let r = wo[0] - Fr::<G>::one() + (w.a_r[0] + wl[0]) * x + s_r[0] * x * x * x;
                (l, r)
            };
            if m0.ipp.a != l || m0.ipp.b != r || m0.t_x != l * r {
                return Err(Failure::new("C09:final-opening", "for padded size 1 the final scalars must equal l(x), r(x) built from the witness, the weights and the masking draws", pj("final scalars".into())));
            }
            col.class("full-algebraic-opening(padded=1)");
        }
        col.class("blinding-scalars-recomputed");
    } else {
        col.note("prover log lacks the protocol challenges: blinding scalars not recomputed");
    }
    if unused > 0 {
        col.class("unused-extra-draws");
    }
    col.evals_add(draws.len() as u64 + 3);
    finish(col, &prog, &shape, true)
}


/// Every draw of one fixed circuit with more than 64 gates in each phase is probed (in
/// parallel): masking vectors of long phases must be fresh draws too.
fn full_probe_large<G: CurveTag>(n1: usize, n2: usize, col: &mut Collector) -> Vec<Failure> {
    use crate::program::{Op, Program, Sc, Var};
    use crate::scalars::ScalarSpec;
    let mut ops = vec![Op::Commit { v: ScalarSpec::Small(3), blind: ScalarSpec::Rand(8) }];
    for i in 0..n1 {
        ops.push(Op::AllocMul { l: Sc::C(ScalarSpec::Small(1 + i as u64)), r: Sc::C(ScalarSpec::Rand(i as u64)) });
    }
    ops.push(Op::Constrain { lc: vec![(Var::O(0), Sc::C(ScalarSpec::One)), (Var::Com(0), Sc::C(ScalarSpec::Small(2)))], err: None, base: None });
    let mut body = vec![Op::Challenge { label: 0 }];
    for j in 0..n2 {
        body.push(Op::AllocMul { l: Sc::MulReg(ScalarSpec::Small(1 + j as u64), 0), r: Sc::C(ScalarSpec::Small(2 + j as u64)) });
    }
    ops.push(Op::Closure(body));
    let prog = Program { curve: G::CURVE, tlabel: 0, pre: vec![], ops, owned: false, cap_p: Cap::Big, cap_v: Cap::Big, party_cap: 1, seed: 909, pc: 0, gens: 0 };
    let n = n1 + n2;
    let pj = |s: String| -> Value { json!({"large_circuit_gates": [n1, n2], "curve": G::CURVE.name(), "at": s}) };
    let p0 = run_prover::<G>(&prog, &ProveOpts { record: true, ..Default::default() });
    let Some(proof0) = p0.proof.as_ref() else { return vec![] };
    let m0 = ProofMirror::from_proof(proof0);
    let Some(draws) = decode_draws::<Fr<G>>(&rng_stream(&p0.log)) else {
        col.note("large circuit: RNG stream does not decode (not evaluated)");
        return vec![];
    };
    let Some(base_script) = encode_draws(&draws) else { return vec![] };
    let base = run_prover::<G>(&prog, &ProveOpts { script: Some(base_script), ..Default::default() });
    if base.bytes != p0.bytes {
        col.note("large circuit: scripted replay does not reproduce the proof (not evaluated)");
        return vec![];
    }
    let idx: Vec<usize> = (0..draws.len()).collect();
    let results: std::sync::Mutex<Vec<(usize, Option<Role>)>> = std::sync::Mutex::new(vec![]);
    let o = crate::runner::enumerate("c09/full-probe-large", &idx, &|j| vec![*j as u8], &|j, _c| {
        let pc = prog_pc::<G>(&prog);
        let gens = bp_gens::<G>(256, 1);
        let gv: Vec<G> = gens.G(n, 1).cloned().collect();
        let hv: Vec<G> = gens.H(n, 1).cloned().collect();
        let mut d2 = draws.clone();
        d2[*j] += Fr::<G>::one();
        let Some(script) = encode_draws(&d2) else { return Ok(()) };
        let p = run_prover::<G>(&prog, &ProveOpts { script: Some(script), ..Default::default() });
        let Some(pf) = p.proof.as_ref() else { return Ok(()) };
        let mj = ProofMirror::from_proof(pf);
        let groups: [&[usize]; 3] = [&[0, 1, 2], &[3, 4, 5], &[6, 7, 8, 9, 10]];
        let mut hit: Option<Vec<usize>> = None;
        for g in groups {
            let changed: Vec<usize> = g.iter().copied().filter(|i| m0.points()[*i] != mj.points()[*i]).collect();
            if !changed.is_empty() {
                hit = Some(changed);
                break;
            }
        }
        let role = match hit {
            None => None,
            Some(ch) if ch.len() != 1 => {
                return Err(Failure::new("C09:draw-feeds-several-commitments", format!("large circuit: RNG draw #{} changes {:?} at once", j, ch.iter().map(|i| POINT_NAMES[*i]).collect::<Vec<_>>()), pj(format!("probe {}", j))))
            }
            Some(ch) => {
                let f = ch[0];
                let diff = (mj.points()[f].into_group() - m0.points()[f].into_group()).into_affine();
                let gen = if diff == pc.B_blinding {
                    Some(Gen::Blinding)
                } else {
                    (0..n).find_map(|i| if diff == gv[i] { Some(Gen::G(i)) } else if diff == hv[i] { Some(Gen::H(i)) } else { None })
                };
                match gen {
                    Some(g) => Some((f, g)),
                    None => {
                        return Err(Failure::new(
                            format!("C09:draw-not-a-single-generator:{}", POINT_NAMES[f]),
                            format!("large circuit ({}+{} gates): adding 1 to RNG draw #{} changes {} by something other than exactly one generator (a masking entry is shared between positions)", n1, n2, j, POINT_NAMES[f]),
                            pj(format!("probe {}", j)),
                        ))
                    }
                }
            }
        };
        results.lock().unwrap().push((*j, role));
        Ok(())
    });
    col.evals_add(o.stats.evals);
    let mut fails: Vec<Failure> = o.found.into_iter().map(|f| f.failure).collect();
    if !fails.is_empty() {
        return fails;
    }
    // bijection over the required roles
    let roles = results.into_inner().unwrap();
    let mut count: BTreeMap<Role, usize> = BTreeMap::new();
    for (_, r) in &roles {
        if let Some(r) = r {
            *count.entry(*r).or_insert(0) += 1;
        }
    }
    let mut required: Vec<Role> = vec![(0, Gen::Blinding), (1, Gen::Blinding), (2, Gen::Blinding), (3, Gen::Blinding), (4, Gen::Blinding), (5, Gen::Blinding)];
    for i in 0..n {
        let f = if i < n1 { 2 } else { 5 };
        required.push((f, Gen::G(i)));
        required.push((f, Gen::H(i)));
    }
    for t in 6..11 {
        required.push((t, Gen::Blinding));
    }
    for r in &required {
        if count.get(r).copied().unwrap_or(0) != 1 {
            fails.push(Failure::new(
                format!("C09:role-without-fresh-draw:{}", POINT_NAMES[r.0]),
                format!("large circuit ({}+{} gates): {} draw(s) feed {} along {:?} (exactly one fresh draw required)", n1, n2, count.get(r).copied().unwrap_or(0), POINT_NAMES[r.0], r.1),
                pj("roles".into()),
            ));
            break;
        }
    }
    col.class("large:full-probe");
    col.nontrivial(crate::runner::fp_of(&(G::CURVE, n1, n2, "full-probe")));
    fails
}

/// circuits at scale: `n1` first-phase and `n2` second-phase gates, `m` commitments
fn scale_case<G: CurveTag>(n1: usize, n2: usize, m: usize, col: &mut Collector) -> Result<(), Failure> {
    use crate::program::{Op, Program, Sc, Var};
    use crate::scalars::ScalarSpec;
    let mut ops = vec![];
    for j in 0..m {
        ops.push(Op::Commit { v: ScalarSpec::Small(3 + j as u64), blind: ScalarSpec::Rand(8 + j as u64) });
    }
    for i in 0..n1 {
        ops.push(Op::AllocMul { l: Sc::C(ScalarSpec::Small(1 + i as u64)), r: Sc::C(ScalarSpec::Rand(i as u64)) });
    }
    if m > 0 {
        ops.push(Op::Constrain { lc: vec![(Var::Com(m - 1), Sc::C(ScalarSpec::One))], err: None, base: None });
    }
    if n2 > 0 {
        let mut body = vec![Op::Challenge { label: 0 }];
        for i in 0..n2 {
            body.push(Op::AllocMul { l: Sc::MulReg(ScalarSpec::Small(1 + i as u64), 0), r: Sc::C(ScalarSpec::Small(2)) });
        }
        ops.push(Op::Closure(body));
    }
    let prog = Program { curve: G::CURVE, tlabel: 0, pre: vec![], ops, owned: false, cap_p: Cap::Exact, cap_v: Cap::Exact, party_cap: 1, seed: (n1 * 31 + m) as u64, pc: 0, gens: 0 };
    let bytes: Vec<u8> = (0..64u32).map(|i| (i.wrapping_mul(2654435761) >> 13) as u8 ^ n1 as u8 ^ m as u8).collect();
    let mut ch = Choices::new(&bytes);
    check_prog::<G>(prog, &mut ch, col, 2)?;
    col.class("scale");
    Ok(())
}

fn finish(col: &mut Collector, prog: &crate::program::Program, shape: &crate::program::Shape, probed: bool) -> Result<(), Failure> {
    if probed {
        col.class("probed");
    }
    if shape.n() == 0 {
        col.class("zero-gates");
    }
    if shape.n2 > 0 {
        col.class("second-phase-gates");
    }
    if shape.m > 0 {
        col.class("with-commitments");
    }
    let nt = shape.n() >= 1;
    if nt {
        col.nontrivial(prog.fingerprint());
    }
    col.sample(nt, || json!({"program": prog.to_json(), "probed": probed, "gates": [shape.n1, shape.n2]}));
    Ok(())
}

fn dispatch(sub: &str, bytes: &[u8], col: &mut Collector) -> Result<(), Failure> {
    let mut it = sub.split('/');
    let _ = it.next();
    let curve = Curve::from_name(it.next().unwrap_or("")).unwrap_or(Curve::Secq);
    let third = it.next().unwrap_or("6");
    let large = third == "large";
    let mg: usize = third.parse().unwrap_or(6);
    with_curve!(curve, G => case::<G>(bytes, col, mg, large))
}

pub fn replay(sub: &str, bytes: &[u8], col: &mut Collector) -> Result<(), Failure> {
    if sub == "c09/scale" && bytes.len() == 7 {
        let u = |i: usize| (bytes[i] as usize) << 8 | bytes[i + 1] as usize;
        return with_curve!(Curve::ALL[bytes[0] as usize % 3], G => scale_case::<G>(u(1), u(3), u(5), col));
    }
    dispatch(sub, bytes, col)
}

pub fn run(tier: &str, seed: u64) -> i32 {
    let mut rep = Report::new("C09", tier, seed);
    rep.rule = "C01 programs (≤ 6 gates quick / ≤ 16 thorough, both phases, with and without commitments) × external seeds: (1) the RNG is forked from the proof transcript, rekeyed with every commitment blinding factor, finalized with 32 bytes of the caller's RNG; (2) another external seed changes every component except those the statement fixes, the same seed reproduces the proof; (3) the recorded RNG stream decodes into pairwise distinct non-zero draws; (4) re-proving with draw j := draw j + 1 for every j changes, in the first affected group of commitments, exactly one point by exactly one generator, and the required roles {(A_I,B̃),(A_O,B̃),(S,B̃),(S,G_i),(S,H_i), second-phase analogues, (T_i,B̃)} are covered bijectively; (5) the commitments open to the model witness plus those draws, e_blinding and t_x_blinding are recomputed, and for padded size 1 the final scalars equal l(x), r(x). Non-trivial = ≥ 1 gate; distinct = program hash".into();
    rep.assumptions = vec![
        "structure of blinding is established (each role has its own fresh draw from the bound RNG), not statistical indistinguishability".into(),
        "draw decoding relies on the sampler reading 4 little-endian limbs as a Montgomery representation; if that stops holding, steps 4-5 are reported as not evaluated".into(),
    ];
    let mg = if tier == "thorough" { 16 } else { 6 };
    let n = super::scale(tier, 250, 2500);
    for c in Curve::ALL {
        if !rep.outcome.found.is_empty() {
            break;
        }
        let sub = format!("c09/{}/{}", c.name(), mg);
        rep.outcome.merge(replay_corpus("C09", &sub, &|b, col| dispatch(&sub, b, col)));
        rep.outcome.merge(search(&sub, seed, n, 500, &|b, col| dispatch(&sub, b, col)));
        // more than 64 gates in a phase: seed laws, draw freshness and a sample of the probes
        let subl = format!("c09/{}/large", c.name());
        let nl = super::scale(tier, 16, 120);
        rep.outcome.merge(search(&subl, seed, nl, 900, &|b, col| dispatch(&subl, b, col)));
    }
    // one fixed circuit with more than 64 gates in each phase, every draw probed
    if rep.outcome.found.is_empty() {
        let curves: Vec<Curve> = if tier == "thorough" { Curve::ALL.to_vec() } else { vec![Curve::ALL[(seed % 3) as usize]] };
        for c in curves {
            let mut col = Collector::default();
            let fails = with_curve!(c, G => full_probe_large::<G>(70, 66, &mut col));
            rep.outcome.stats.merge(col);
            for f in fails {
                rep.outcome.found.push(crate::runner::Found { failure: f, bytes: None, sub: "c09/full-probe-large".into() });
            }
        }
    }
    // circuits at scale: thousands of gates in a phase, more than a thousand commitments
    if rep.outcome.found.is_empty() {
        let mut items: Vec<(Curve, usize, usize, usize)> = vec![];
        if tier == "thorough" {
            for c in Curve::ALL {
                items.extend([(c, 4096, 0, 2), (c, 1000, 4100, 1), (c, 8, 0, 1025), (c, 3, 2, 2100), (c, 2048, 2048, 0), (c, 8200, 0, 1)]);
                if c == Curve::ALL[(seed % 3) as usize] {
                    items.push((c, 16384, 0, 1));
                }
                if c == Curve::ALL[((seed + 1) % 3) as usize] {
                    items.push((c, 5, 32_800, 0));
                }
            }
        } else {
            let c = Curve::ALL[((seed + 1) % 3) as usize];
            items.extend([(c, 4096, 0, 2), (c, 8, 0, 1025), (c, 600, 520, 3)]);
        }
        let o = crate::runner::enumerate(
            "c09/scale",
            &items,
            &|(c, a, b, m)| vec![c.index() as u8, (*a >> 8) as u8, *a as u8, (*b >> 8) as u8, *b as u8, (*m >> 8) as u8, *m as u8],
            &|(c, a, b, m), col| with_curve!(*c, G => scale_case::<G>(*a, *b, *m, col)),
        );
        rep.outcome.merge(o);
        rep.outcome.exhaustive = false;
    }
    for (c, f) in [("probed", 0.5), ("second-phase-gates", 0.1), ("zero-gates", 0.03), ("with-commitments", 0.3), ("full-algebraic-opening(padded=1)", 0.05), ("blinding-scalars-recomputed", 0.5)] {
        rep.required_classes.push((c.to_string(), f));
    }
    rep.finish()
}
