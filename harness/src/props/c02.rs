//! C02 — soundness against invalid witnesses: the proof the proving procedure emits for an
//! assignment that violates a constraint or a gate is rejected.
use crate::choices::Choices;
use crate::curves::{Curve, CurveTag};
use crate::drive::{run_batch, run_prover, run_verifier, BatchMember, ProveOpts, VerifyOpts};
use crate::model::Violation;
use crate::program::{gen_program, GenCfg, Op, Program, Sc, Var};
use crate::runner::{fp_of, replay_corpus, search, Collector, Failure, Report};
use crate::scalars::ScalarSpec;
use crate::with_curve;
use serde_json::json;

/// where an op list lives: top level (None) or the body of the closure at ops[i]
pub type ListRef = Option<usize>;

pub fn list_mut(prog: &mut Program, l: ListRef) -> &mut Vec<Op> {
    match l {
        None => &mut prog.ops,
        Some(i) => match &mut prog.ops[i] {
            Op::Closure(b) => b,
            _ => unreachable!(),
        },
    }
}

pub fn lists(prog: &Program) -> Vec<ListRef> {
    let mut v = vec![None];
    for (i, op) in prog.ops.iter().enumerate() {
        if matches!(op, Op::Closure(_)) {
            v.push(Some(i));
        }
    }
    v
}

pub fn constrain_sites(prog: &Program) -> Vec<(ListRef, usize)> {
    let mut v = vec![];
    for l in lists(prog) {
        let ops: &Vec<Op> = match l {
            None => &prog.ops,
            Some(i) => match &prog.ops[i] {
                Op::Closure(b) => b,
                _ => unreachable!(),
            },
        };
        for (j, op) in ops.iter().enumerate() {
            if matches!(op, Op::Constrain { .. }) {
                v.push((l, j));
            }
        }
    }
    v
}

/// gate id -> list in which it is created (execution order: top level, then closure bodies)
fn gate_sites(prog: &Program) -> Vec<ListRef> {
    let mut v = vec![];
    let mut walk = |ops: &Vec<Op>, l: ListRef, pending: &mut bool, v: &mut Vec<ListRef>| {
        for op in ops {
            match op {
                Op::Alloc { .. } => {
                    if !*pending {
                        v.push(l);
                    }
                    *pending = !*pending;
                }
                Op::AllocMul { .. } | Op::Mul { .. } => v.push(l),
                _ => {}
            }
        }
    };
    let mut pending = false;
    walk(&prog.ops, None, &mut pending, &mut v);
    pending = false;
    for (i, op) in prog.ops.iter().enumerate() {
        if let Op::Closure(b) = op {
            walk(b, Some(i), &mut pending, &mut v);
        }
    }
    v
}

fn pick_pos(ch: &mut Choices, n: usize) -> (usize, &'static str) {
    match ch.below(3) {
        0 => (0, "first"),
        1 => (n - 1, "last"),
        _ => (ch.below(n), "any"),
    }
}

fn set_err(prog: &mut Program, site: (ListRef, usize), e: ScalarSpec) {
    if let Op::Constrain { err, .. } = &mut list_mut(prog, site.0)[site.1] {
        *err = Some(e);
    }
}

fn ensure_constraints(ch: &mut Choices, prog: &mut Program, want: usize) {
    while constrain_sites(prog).len() < want {
        let ls = lists(prog);
        let l = ls[ch.below(ls.len())];
        let shape = prog.shape();
        let mut lc = vec![];
        if shape.m > 0 && ch.chance(128) {
            lc.push((Var::Com(ch.below(shape.m)), Sc::C(ScalarSpec::gen_nonzero(ch))));
        }
        if shape.n1 > 0 && ch.chance(128) {
            lc.push((Var::L(ch.below(shape.n1)), Sc::C(ScalarSpec::gen_nonzero(ch))));
        }
        list_mut(prog, l).push(Op::Constrain { lc, err: None, base: None });
    }
}

/// Inject ≥ 1 violation; returns the label of the injection class.
pub fn inject(ch: &mut Choices, prog: &mut Program) -> String {
    let class = ch.weighted(&[16, 7, 9, 13, 10, 9, 9, 7, 7, 7, 6]);
    let e = ScalarSpec::gen_nonzero(ch);
    let neg = |s: &ScalarSpec| -> Option<ScalarSpec> {
        Some(match s {
            ScalarSpec::One => ScalarSpec::MinusOne,
            ScalarSpec::MinusOne => ScalarSpec::One,
            ScalarSpec::Small(k) => ScalarSpec::NegSmall(*k),
            ScalarSpec::NegSmall(k) => ScalarSpec::Small(*k),
            _ => return None,
        })
    };
    match class {
        // one linear constraint off by e
        0 => {
            ensure_constraints(ch, prog, 1);
            let sites = constrain_sites(prog);
            let (i, pos) = pick_pos(ch, sites.len());
            set_err(prog, sites[i], e);
            format!("linear/{}", pos)
        }
        // a constraint over constants only
        1 => {
            let ls = lists(prog);
            let l = ls[ch.below(ls.len())];
            let lc = if ch.chance(128) { vec![] } else { vec![(Var::One, Sc::C(ScalarSpec::gen(ch)))] };
            let list = list_mut(prog, l);
            let at = ch.below(list.len() + 1);
            list.insert(at, Op::Constrain { lc, err: Some(e), base: None });
            "constant-only".into()
        }
        // a constraint over committed values only
        2 => {
            let shape = prog.shape();
            if shape.m == 0 {
                prog.ops.insert(0, Op::Commit { v: ScalarSpec::gen(ch), blind: ScalarSpec::gen(ch) });
            }
            let m = prog.shape().m;
            let mut lc = vec![(Var::Com(ch.below(m)), Sc::C(ScalarSpec::gen_nonzero(ch)))];
            if ch.chance(100) {
                lc.push((Var::Com(ch.below(m)), Sc::C(ScalarSpec::gen_nonzero(ch))));
            }
            // after all commits, at the end of the first phase or inside a closure
            let ls = lists(prog);
            let l = ls[ch.below(ls.len())];
            list_mut(prog, l).push(Op::Constrain { lc, err: Some(e), base: None });
            "committed-only".into()
        }
        // one gate with out != left * right (hook)
        3 => {
            if prog.shape().n() == 0 {
                prog.ops.push(Op::AllocMul { l: Sc::C(ScalarSpec::gen(ch)), r: Sc::C(ScalarSpec::gen(ch)) });
            }
            let gs = gate_sites(prog);
            let (g, pos) = pick_pos(ch, gs.len());
            let which = ch.below(3);
            let (dl, dr, dout) = match which {
                0 => (ScalarSpec::Zero, ScalarSpec::Zero, e),
                1 => (e, ScalarSpec::Zero, ScalarSpec::Zero),
                _ => (ScalarSpec::Zero, e, ScalarSpec::Zero),
            };
            list_mut(prog, gs[g]).push(Op::Tamper { gate: g, dl, dr, dout });
            format!("gate/{}/{}", pos, ["out", "left", "right"][which])
        }
        // cancelling pair of linear errors (+e, -e)
        4 => {
            ensure_constraints(ch, prog, 2);
            let sites = constrain_sites(prog);
            let i = ch.below(sites.len());
            let mut j = ch.below(sites.len() - 1);
            if j >= i {
                j += 1;
            }
            let (e1, e2) = match neg(&e) {
                Some(n) => (e, n),
                None => (ScalarSpec::Small(3), ScalarSpec::NegSmall(3)),
            };
            set_err(prog, sites[i], e1);
            set_err(prog, sites[j], e2);
            "cancelling-linear-pair".into()
        }
        // cancelling pair of gate errors
        5 => {
            while prog.shape().n() < 2 {
                prog.ops.push(Op::AllocMul { l: Sc::C(ScalarSpec::gen(ch)), r: Sc::C(ScalarSpec::gen(ch)) });
            }
            let gs = gate_sites(prog);
            let i = ch.below(gs.len());
            let mut j = ch.below(gs.len() - 1);
            if j >= i {
                j += 1;
            }
            let (e1, e2) = match neg(&e) {
                Some(n) => (e, n),
                None => (ScalarSpec::One, ScalarSpec::MinusOne),
            };
            list_mut(prog, gs[i]).push(Op::Tamper { gate: i, dl: ScalarSpec::Zero, dr: ScalarSpec::Zero, dout: e1 });
            list_mut(prog, gs[j]).push(Op::Tamper { gate: j, dl: ScalarSpec::Zero, dr: ScalarSpec::Zero, dout: e2 });
            "cancelling-gate-pair".into()
        }
        // a violated constraint without a constant term, spelled before its variables exist
        7 => {
            if crate::program::add_forward_violation(ch, prog) {
                "forward-reference".into()
            } else {
                "forward-reference(n/a)".into()
            }
        }
        // the witness misses a constraint by exactly one sign-flipped / dropped / doubled term
        8 => match crate::program::add_near_miss(ch, prog) {
            Some(l) => format!("near-miss:{}", l.split(':').next().unwrap_or("")),
            None => "near-miss(n/a)".into(),
        },
        // X − Y = 0 for two different variables that share an index or sit next to each other:
        // holds only for an implementation that takes one for the other
        9 => {
            let shape = prog.shape();
            if shape.n() == 0 {
                prog.ops.push(Op::AllocMul { l: Sc::C(ScalarSpec::gen_nonzero(ch)), r: Sc::C(ScalarSpec::gen_nonzero(ch)) });
            }
            let n = prog.shape().n();
            let m = prog.shape().m;
            let i = ch.below(n);
            let mut pairs = vec![(Var::L(i), Var::R(i)), (Var::L(i), Var::O(i)), (Var::R(i), Var::O(i))];
            if i + 1 < n {
                pairs.extend([(Var::L(i), Var::L(i + 1)), (Var::O(i), Var::L(i + 1)), (Var::R(i), Var::O(i + 1)), (Var::R(i), Var::R(i + 1))]);
            }
            if i < m {
                pairs.extend([(Var::Com(i), Var::L(i)), (Var::Com(i), Var::O(i))]);
            }
            if m >= 2 {
                let j = ch.below(m - 1);
                pairs.push((Var::Com(j), Var::Com(j + 1)));
            }
            let (x, y) = pairs[ch.below(pairs.len())];
            let c = ScalarSpec::gen_nonzero(ch);
            let nc = neg(&c).unwrap_or(ScalarSpec::MinusOne);
            let c = if neg(&c).is_some() { c } else { ScalarSpec::One };
            let mut lc = vec![(x, Sc::C(c)), (y, Sc::C(nc))];
            if ch.chance(100) {
                lc.swap(0, 1);
            }
            // at the end of the last list, so that both variables exist
            let ls = lists(prog);
            let l = *ls.last().unwrap();
            list_mut(prog, l).push(Op::Constrain { lc, err: None, base: Some(vec![]) });
            "confusable-pair".into()
        }
        // two rows in a row: c·X − c·X (trivially true) and the same spelling with a further term
        // d·Z (false whenever Z ≠ 0): the second must not be taken for a repetition of the first
        10 => {
            let sv: Vec<crate::program::StaticVar> = crate::program::static_vars(prog).into_iter().filter(|s| s.val.iter().all(|v| !v.is_zero_spec())).collect();
            if sv.len() < 2 {
                return "row-extension(n/a)".into();
            }
            let x = sv[ch.below(sv.len())].var;
            let z = sv[ch.below(sv.len())].var;
            let c = ScalarSpec::Small(1 + ch.below(9) as u64);
            let nc = neg(&c).unwrap();
            let d = ScalarSpec::gen_nonzero(ch);
            let row1 = vec![(x, Sc::C(c)), (x, Sc::C(nc))];
            let mut row2 = row1.clone();
            row2.push((z, Sc::C(d)));
            let ls = lists(prog);
            let l = *ls.last().unwrap();
            let list = list_mut(prog, l);
            list.push(Op::Constrain { lc: row1, err: None, base: Some(vec![]) });
            list.push(Op::Constrain { lc: row2, err: None, base: Some(vec![]) });
            "row-extension".into()
        }
        // a gate error offset by a linear error of the same size
        _ => {
            if prog.shape().n() == 0 {
                prog.ops.push(Op::AllocMul { l: Sc::C(ScalarSpec::gen(ch)), r: Sc::C(ScalarSpec::gen(ch)) });
            }
            let gs = gate_sites(prog);
            let g = ch.below(gs.len());
            let l = gs[g];
            let e2 = neg(&e).unwrap_or(ScalarSpec::MinusOne);
            list_mut(prog, l).push(Op::Tamper { gate: g, dl: ScalarSpec::Zero, dr: ScalarSpec::Zero, dout: e.clone() });
            list_mut(prog, l).push(Op::Constrain { lc: vec![(Var::O(g), Sc::C(ScalarSpec::One))], err: Some(e2), base: None });
            "gate+linear-offset".into()
        }
    }
}

/// The first 24 choice bytes drive the injection, the rest the program (so that a short
/// byte string does not always collapse to the first injection class).
pub fn gen_bad(bytes: &[u8], curve: Curve, cfg: &GenCfg) -> (Program, String) {
    let cut = bytes.len().min(24);
    let mut chi = Choices::new(&bytes[..cut]);
    let mut ch = Choices::new(&bytes[cut..]);
    let mut prog = gen_program(&mut ch, curve, cfg);
    let mut label = inject(&mut chi, &mut prog);
    if chi.chance(40) {
        label = format!("{}+{}", label, inject(&mut chi, &mut prog));
    }
    (prog, label)
}

pub fn violation_kinds(v: &[Violation]) -> Vec<&'static str> {
    let mut k = vec![];
    for x in v {
        k.push(match x {
            Violation::Row { only_const: true, .. } => "row:constant-only",
            Violation::Row { only_committed: true, .. } => "row:committed-only",
            Violation::Row { implicit: true, .. } => "row:multiply-input",
            Violation::Row { phase2: true, .. } => "row:phase2",
            Violation::Row { .. } => "row:phase1",
            Violation::Gate { phase2: true, .. } => "gate:phase2",
            Violation::Gate { .. } => "gate:phase1",
        });
    }
    k.sort();
    k.dedup();
    k
}

pub fn case<G: CurveTag>(bytes: &[u8], col: &mut Collector, cfg: &GenCfg) -> Result<(), Failure> {
    let (prog, label) = gen_bad(bytes, G::CURVE, cfg);
    let shape = prog.shape();
    let p = run_prover::<G>(&prog, &ProveOpts::default());
    let viol = p.model.violations();
    if viol.is_empty() {
        col.class("trivial:injection-left-system-satisfied");
        return Ok(());
    }
    let Some(proof) = p.proof.as_ref() else {
        col.note("prover-did-not-emit-a-proof-for-the-bad-witness");
        return Ok(());
    };
    let v = run_verifier::<G>(&prog, &p.commitments, proof, &VerifyOpts::default());
    let kinds = violation_kinds(&viol);
    if v.accepted() {
        return Err(Failure::new(
            format!("C02:accepted:{}", kinds.join("+")),
            format!(
                "verify accepted a proof made from an assignment that violates {:?} (injected: {}; gates {}+{})",
                viol, label, shape.n1, shape.n2
            ),
            json!({"program": prog.to_json(), "injected": label, "violated": format!("{:?}", viol)}),
        ));
    }
    if v.panic.is_some() {
        col.note("verifier-panicked-instead-of-rejecting (left to C08)");
    }
    // the same proofs through batch verification: alone, and together with the proof of the
    // *opposite* violation (every injected error negated; constants are not bound by the
    // transcript, so the two members share all challenges)
    if bytes.first().map(|b| b % 3 == 0).unwrap_or(false) {
        let solo = run_batch::<G>(&[BatchMember { prog: &prog, commitments: &p.commitments, proof }], 256, 3);
        if matches!(solo.0, Some(Ok(()))) {
            return Err(Failure::new("C02:batch-accepted:alone", format!("batch_verify accepted a proof made from an assignment that violates {:?}", viol), json!({"program": prog.to_json(), "injected": label})));
        }
        let mut twin = prog.clone();
        let mut flipped = true;
        for l in lists(&twin) {
            for op in list_mut(&mut twin, l).iter_mut() {
                if let Op::Constrain { err: Some(e), .. } = op {
                    *e = match e {
                        ScalarSpec::One => ScalarSpec::MinusOne,
                        ScalarSpec::MinusOne => ScalarSpec::One,
                        ScalarSpec::Small(k) => ScalarSpec::NegSmall(*k),
                        ScalarSpec::NegSmall(k) => ScalarSpec::Small(*k),
                        _ => {
                            flipped = false;
                            e.clone()
                        }
                    };
                }
            }
        }
        let has_tamper = prog.shape().tamper > 0;
        if flipped && !has_tamper && prog.shape().errs > 0 {
            let pt = run_prover::<G>(&twin, &ProveOpts::default());
            if let Some(pft) = pt.proof.as_ref() {
                if !pt.model.violations().is_empty() {
                    let pair = run_batch::<G>(&[BatchMember { prog: &prog, commitments: &p.commitments, proof }, BatchMember { prog: &twin, commitments: &pt.commitments, proof: pft }], 256, 4);
                    if matches!(pair.0, Some(Ok(()))) {
                        return Err(Failure::new(
                            "C02:batch-accepted:opposite-violations",
                            "batch_verify accepted two proofs made from assignments that violate the same constraints by opposite amounts".to_string(),
                            json!({"program": prog.to_json(), "twin": twin.to_json(), "injected": label}),
                        ));
                    }
                    col.class("batch:opposite-violations");
                }
            }
        }
        col.class("batch:alone");
    }
    for part in label.split('+') {
        col.class(&format!("inject:{}", part.split('/').next().unwrap_or("")));
    }
    for k in &kinds {
        col.class(&format!("violated:{}", k));
    }
    if viol.len() > 1 {
        col.class("several-violations");
    }
    for c in shape.classes() {
        if matches!(c, "both-phases" | "zero-gates" | "phase2-only" | "half-open-end1") {
            col.class(c);
        }
    }
    col.nontrivial(fp_of(&(prog.fingerprint(), label.clone())));
    col.sample(true, || json!({"program": prog.to_json(), "injected": label, "violated": format!("{:?}", viol), "verdict": v.verdict()}));
    Ok(())
}

/// Adjacent cancelling pairs, swept over every position: +e on constraint q and -e on q+1 of a
/// circuit with many constraints (kind 0), or on the outputs of gates i and i+1 (kind 1). Two
/// positions that share a weight in the random linear combination would let the pair through.
#[derive(Clone, Copy, Debug)]
pub struct SweepItem {
    pub curve: Curve,
    pub kind: u8,
    pub total: usize,
    pub at: usize,
    /// distance between the two violated positions
    pub dist: usize,
}

impl SweepItem {
    pub fn encode(&self) -> Vec<u8> {
        vec![self.curve.index() as u8, self.kind, (self.total >> 8) as u8, self.total as u8, (self.at >> 8) as u8, self.at as u8, (self.dist >> 8) as u8, self.dist as u8]
    }
    pub fn decode(b: &[u8]) -> Option<Self> {
        if b.len() != 8 {
            return None;
        }
        Some(SweepItem { curve: *Curve::ALL.get(b[0] as usize)?, kind: b[1], total: (b[2] as usize) << 8 | b[3] as usize, at: (b[4] as usize) << 8 | b[5] as usize, dist: (b[6] as usize) << 8 | b[7] as usize })
    }
}

fn sweep_case<G: CurveTag>(it: &SweepItem, col: &mut Collector) -> Result<(), Failure> {
    use crate::program::Cap;
    let mut ops = vec![Op::Commit { v: ScalarSpec::Small(9), blind: ScalarSpec::Rand(5) }];
    if it.kind == 0 {
        for q in 0..it.total {
            let err = if q == it.at { Some(ScalarSpec::Small(3)) } else if q == it.at + it.dist { Some(ScalarSpec::NegSmall(3)) } else { None };
            let lc = if q % 3 == 0 { vec![] } else { vec![(Var::Com(0), Sc::C(ScalarSpec::Small(1 + (q % 7) as u64)))] };
            ops.push(Op::Constrain { lc, err, base: None });
        }
    } else {
        for i in 0..it.total {
            ops.push(Op::AllocMul { l: Sc::C(ScalarSpec::Small(2 + i as u64)), r: Sc::C(ScalarSpec::Rand(i as u64)) });
        }
        ops.push(Op::Tamper { gate: it.at, dl: ScalarSpec::Zero, dr: ScalarSpec::Zero, dout: ScalarSpec::Small(5) });
        ops.push(Op::Tamper { gate: it.at + it.dist, dl: ScalarSpec::Zero, dr: ScalarSpec::Zero, dout: ScalarSpec::NegSmall(5) });
    }
    let prog = Program { curve: G::CURVE, tlabel: 0, pre: vec![], ops, owned: false, cap_p: Cap::Exact, cap_v: Cap::Exact, party_cap: 1, seed: it.at as u64, pc: 0, gens: 0 };
    let p = run_prover::<G>(&prog, &ProveOpts::default());
    if p.model.violations().len() != 2 {
        return Err(Failure::new("machinery:sweep", "sweep program does not violate exactly two items", json!(format!("{:?}", it))));
    }
    let Some(proof) = p.proof.as_ref() else { return Ok(()) };
    let v = run_verifier::<G>(&prog, &p.commitments, proof, &VerifyOpts::default());
    if v.accepted() {
        let what = if it.kind == 0 { "linear constraints" } else { "multiplication gates" };
        return Err(Failure::new(
            format!("C02:accepted:adjacent-cancelling-{}", if it.kind == 0 { "constraints" } else { "gates" }),
            format!("cancelling errors on {} #{} and #{} (of {}) are accepted: the two positions are not weighted independently", what, it.at, it.at + it.dist, it.total),
            json!({"sweep": format!("{:?}", it)}),
        ));
    }
    col.class(if it.kind == 0 { "sweep:adjacent-constraints" } else { "sweep:adjacent-gates" });
    col.nontrivial(fp_of(&(it.curve, it.kind, it.total, it.at, it.dist)));
    if it.at == 255 {
        col.sample(true, || json!({"sweep": format!("{:?}", it), "verdict": v.verdict()}));
    }
    Ok(())
}

/// One violated item far out: a constraint at position `at` of `total` (kind 0), a first-phase
/// gate (1), a constraint over commitment `at` of `total` commitments (2), a second-phase gate (3).
#[derive(Clone, Copy, Debug)]
pub struct ScaleItem {
    pub curve: Curve,
    pub kind: u8,
    pub total: usize,
    pub at: usize,
}

impl ScaleItem {
    pub fn encode(&self) -> Vec<u8> {
        let mut v = vec![self.curve.index() as u8, self.kind];
        v.extend((self.total as u32).to_be_bytes());
        v.extend((self.at as u32).to_be_bytes());
        v
    }
    pub fn decode(b: &[u8]) -> Option<Self> {
        if b.len() != 10 {
            return None;
        }
        Some(ScaleItem { curve: *Curve::ALL.get(b[0] as usize)?, kind: b[1], total: u32::from_be_bytes(b[2..6].try_into().ok()?) as usize, at: u32::from_be_bytes(b[6..10].try_into().ok()?) as usize })
    }
}

fn scale_case<G: CurveTag>(it: &ScaleItem, col: &mut Collector) -> Result<(), Failure> {
    use crate::program::Cap;
    let mut ops = vec![];
    match it.kind {
        0 => {
            ops.push(Op::Commit { v: ScalarSpec::Small(9), blind: ScalarSpec::Rand(5) });
            ops.push(Op::AllocMul { l: Sc::C(ScalarSpec::Small(2)), r: Sc::C(ScalarSpec::Small(3)) });
            for q in 0..it.total {
                let err = if q == it.at { Some(ScalarSpec::Small(3)) } else { None };
                let lc = match q % 3 {
                    0 => vec![(Var::O(0), Sc::C(ScalarSpec::Small(1 + (q % 5) as u64)))],
                    1 => vec![(Var::Com(0), Sc::C(ScalarSpec::Small(1 + (q % 7) as u64)))],
                    _ => vec![(Var::L(0), Sc::C(ScalarSpec::One)), (Var::Com(0), Sc::C(ScalarSpec::MinusOne))],
                };
                ops.push(Op::Constrain { lc, err, base: None });
            }
        }
        1 | 3 => {
            ops.push(Op::Commit { v: ScalarSpec::Small(9), blind: ScalarSpec::Rand(5) });
            let mut gates = vec![];
            if it.kind == 3 {
                gates.push(Op::Challenge { label: 0 });
            }
            for i in 0..it.total {
                gates.push(Op::AllocMul { l: Sc::C(ScalarSpec::Small(2 + i as u64)), r: Sc::C(ScalarSpec::Rand(i as u64)) });
            }
            gates.push(Op::Tamper { gate: if it.kind == 3 { 2 + it.at } else { it.at }, dl: ScalarSpec::Zero, dr: ScalarSpec::Zero, dout: ScalarSpec::Small(5) });
            if it.kind == 3 {
                // two first-phase gates, the rest in the closure
                ops.push(Op::AllocMul { l: Sc::C(ScalarSpec::Small(4)), r: Sc::C(ScalarSpec::Small(5)) });
                ops.push(Op::AllocMul { l: Sc::C(ScalarSpec::Small(6)), r: Sc::C(ScalarSpec::Small(7)) });
                ops.push(Op::Closure(gates));
            } else {
                ops.extend(gates);
            }
        }
        4 => {
            // one constraint with `total` terms over a few variables of every kind; the term at
            // `at` carries the violation (its coefficient is off by one against the constant)
            ops.push(Op::Commit { v: ScalarSpec::Small(9), blind: ScalarSpec::Rand(5) });
            ops.push(Op::AllocMul { l: Sc::C(ScalarSpec::Small(2)), r: Sc::C(ScalarSpec::Small(3)) });
            ops.push(Op::AllocMul { l: Sc::C(ScalarSpec::Small(5)), r: Sc::C(ScalarSpec::Small(7)) });
            let vars = [Var::Com(0), Var::L(0), Var::R(0), Var::O(0), Var::L(1), Var::R(1), Var::O(1), Var::One];
            let lc: Vec<(Var, Sc)> = (0..it.total).map(|t| (vars[(t * 5 + t / 8) % vars.len()], Sc::C(ScalarSpec::Small(1 + (t % 11) as u64)))).collect();
            let mut base = lc.clone();
            base[it.at].1 = Sc::C(ScalarSpec::Small(2 + (it.at % 11) as u64));
            ops.push(Op::Constrain { lc, err: None, base: Some(base) });
        }
        6 => {
            // a statement over multiplier wires only: no commitment, no constant anywhere. `total`
            // twin gates tied together by L_i − L_{i+1}, R_i − R_{i+1}, O_i − O_{i+1}; one output is off
            for _ in 0..it.total.max(2) {
                ops.push(Op::AllocMul { l: Sc::C(ScalarSpec::Small(6)), r: Sc::C(ScalarSpec::Small(7)) });
            }
            for i in 0..it.total.max(2) - 1 {
                for (a, b) in [(Var::L(i), Var::L(i + 1)), (Var::R(i), Var::R(i + 1)), (Var::O(i), Var::O(i + 1))] {
                    ops.push(Op::Constrain { lc: vec![(a, Sc::C(ScalarSpec::One)), (b, Sc::C(ScalarSpec::MinusOne))], err: None, base: Some(vec![]) });
                }
            }
            ops.push(Op::Tamper { gate: it.at.min(it.total.max(2) - 1), dl: ScalarSpec::Zero, dr: ScalarSpec::Zero, dout: ScalarSpec::Small(5) });
        }
        5 => {
            // V0 − L0 = 0 (violated: 9 ≠ 2) buried at `at` among `total` constant terms that cancel:
            // satisfied only for an implementation that confuses variables sharing an index
            ops.push(Op::Commit { v: ScalarSpec::Small(9), blind: ScalarSpec::Rand(5) });
            ops.push(Op::AllocMul { l: Sc::C(ScalarSpec::Small(2)), r: Sc::C(ScalarSpec::Small(3)) });
            let mut lc: Vec<(Var, Sc)> = (0..it.total).map(|t| (Var::One, Sc::C(if t % 2 == 0 { ScalarSpec::Small(1 + (t % 5) as u64) } else { ScalarSpec::NegSmall(1 + ((t - 1) % 5) as u64) }))).collect();
            if it.total % 2 == 1 {
                lc.pop();
            }
            let at = it.at.min(lc.len());
            lc.insert(at, (Var::Com(0), Sc::C(ScalarSpec::One)));
            lc.insert(at + 1, (Var::L(0), Sc::C(ScalarSpec::MinusOne)));
            ops.push(Op::Constrain { lc, err: None, base: Some(vec![]) });
        }
        _ => {
            for j in 0..it.total {
                ops.push(Op::Commit { v: ScalarSpec::Small(j as u64), blind: ScalarSpec::Small(1 + j as u64) });
            }
            ops.push(Op::Constrain { lc: vec![(Var::Com(it.at), Sc::C(ScalarSpec::Small(3))), (Var::Com(0), Sc::C(ScalarSpec::One))], err: Some(ScalarSpec::One), base: None });
        }
    }
    let prog = Program { curve: G::CURVE, tlabel: 0, pre: vec![], ops, owned: false, cap_p: Cap::Exact, cap_v: Cap::Exact, party_cap: 1, seed: it.at as u64, pc: 0, gens: 0 };
    let p = run_prover::<G>(&prog, &ProveOpts::default());
    let nviol = p.model.violations().len();
    if (it.kind != 6 && nviol != 1) || nviol == 0 {
        return Err(Failure::new("machinery:scale", "scale program does not violate exactly one item", json!(format!("{:?}", it))));
    }
    let Some(proof) = p.proof.as_ref() else { return Ok(()) };
    let v = run_verifier::<G>(&prog, &p.commitments, proof, &VerifyOpts::default());
    if v.accepted() {
        let what = ["linear constraint", "first-phase gate", "constraint over commitment", "second-phase gate", "term of one long constraint", "pair of same-index variables inside one long constraint", "gate of a statement over wires only"][it.kind as usize % 7];
        return Err(Failure::new(
            format!("C02:accepted:far-out-{}", ["constraint", "gate", "commitment", "phase2-gate", "term", "confusable-pair", "wire-only-statement"][it.kind as usize % 7]),
            format!("a violated {} #{} (of {}) is accepted", what, it.at, it.total),
            json!({"scale": format!("{:?}", it)}),
        ));
    }
    col.class(["scale:constraints", "scale:gates", "scale:commitments", "scale:phase2-gates", "scale:terms", "scale:confusable-pair", "wire-only-statement"][it.kind as usize % 7]);
    col.nontrivial(fp_of(&(it.curve, it.kind, it.total, it.at, 77u8)));
    Ok(())
}

fn dispatch_sweep(it: &SweepItem, col: &mut Collector) -> Result<(), Failure> {
    with_curve!(it.curve, G => sweep_case::<G>(it, col))
}

fn dispatch(sub: &str, bytes: &[u8], col: &mut Collector) -> Result<(), Failure> {
    let curve = Curve::from_name(sub.split('/').nth(1).unwrap_or("")).unwrap_or(Curve::Secq);
    let cfg = if sub.ends_with("/wide") { GenCfg { max_ops1: 600, max_closures: 2, max_ops2: 6, max_commits: 200, big_gates: 0, max_terms: 6, wide: true } } else if sub.ends_with("/large") { GenCfg { max_ops1: 26, max_closures: 5, max_ops2: 10, max_commits: 12, big_gates: 70, max_terms: 10, wide: false } } else { GenCfg::small() };
    with_curve!(curve, G => case::<G>(bytes, col, &cfg))
}

pub fn replay(sub: &str, bytes: &[u8], col: &mut Collector) -> Result<(), Failure> {
    if sub == "c02/scale" {
        let it = ScaleItem::decode(bytes).ok_or_else(|| Failure::new("machinery:replay", "bad scale item", json!(null)))?;
        return with_curve!(it.curve, G => scale_case::<G>(&it, col));
    }
    if sub == "c02/sweep" {
        let it = SweepItem::decode(bytes).ok_or_else(|| Failure::new("machinery:replay", "bad sweep item", json!(null)))?;
        return dispatch_sweep(&it, col);
    }
    dispatch(sub, bytes, col)
}

pub fn run(tier: &str, seed: u64) -> i32 {
    let mut rep = Report::new("C02", tier, seed);
    rep.rule = "C01 programs plus ≥1 injected violation (linear error at first/last/any constraint, constant-only, committed-only, gate error through the guarded hook on left/right/out, cancelling ±e pairs of linear or gate errors, gate error offset by a linear error), pushed through the unmodified prover; the model lists what the final assignment violates; non-trivial = model reports ≥1 violation; distinct = hash(program, injection)".into();
    rep.assumptions = vec![
        "false-accept probability of a sound verifier is ≤ (Q+n)/|F| ≈ 2^-240 and is ignored".into(),
        "gate-violating witnesses are installed with the guarded hook verif_overwrite_gate (feature verif-hooks)".into(),
    ];
    let n = super::scale(tier, 2500, 25000);
    for c in Curve::ALL {
        if !rep.outcome.found.is_empty() {
            break;
        }
        let sub = format!("c02/{}", c.name());
        rep.outcome.merge(replay_corpus("C02", &sub, &|b, col| dispatch(&sub, b, col)));
        rep.outcome.merge(search(&sub, seed, n, 600, &|b, col| dispatch(&sub, b, col)));
        // size-biased tail (up to 70 gates, k up to 7)
        let subl = format!("c02/{}/large", c.name());
        let nl = super::scale(tier, 32, 400);
        rep.outcome.merge(search(&subl, seed, nl, 900, &|b, col| dispatch(&subl, b, col)));
        let subw = format!("c02/{}/wide", c.name());
        let nw = super::scale(tier, 16, 200);
        rep.outcome.merge(crate::runner::search_len(&subw, seed, nw, 5000, 9000, &|b, col| dispatch(&subw, b, col)));
    }
    // position sweeps of adjacent cancelling pairs
    if rep.outcome.found.is_empty() {
        let mut items = vec![];
        let curves: Vec<Curve> = if tier == "thorough" { Curve::ALL.to_vec() } else { vec![Curve::ALL[(seed % 3) as usize]] };
        for c in curves {
            let (q_total, g_total) = if tier == "thorough" { (1100, 256) } else { (1100, 64) };
            for at in 0..q_total - 1 {
                items.push(SweepItem { curve: c, kind: 0, total: q_total, at, dist: 1 });
            }
            for at in 0..g_total - 1 {
                items.push(SweepItem { curve: c, kind: 1, total: g_total, at, dist: 1 });
            }
            // pairs at block-like distances
            for dist in [2usize, 8, 16, 32, 64, 128, 255, 256, 257, 512, 1024] {
                for at in [0usize, 1, 7, 63, 64] {
                    if at + dist < q_total {
                        items.push(SweepItem { curve: c, kind: 0, total: q_total, at, dist });
                    }
                    if at + dist < g_total {
                        items.push(SweepItem { curve: c, kind: 1, total: g_total, at, dist });
                    }
                }
            }
        }
        let mut o = crate::runner::enumerate("c02/sweep", &items, &|i| i.encode(), &|i, col| dispatch_sweep(i, col));
        o.exhaustive = false;
        rep.extra.insert("sweep_items".into(), json!(items.len()));
        rep.outcome.merge(o);
    }
    // single violations far out (beyond 2^12 gates, 2^16 constraints, 2^10 commitments)
    if rep.outcome.found.is_empty() {
        let mut items: Vec<ScaleItem> = vec![];
        let curves: Vec<Curve> = if tier == "thorough" { Curve::ALL.to_vec() } else { vec![Curve::ALL[((seed + 1) % 3) as usize]] };
        for c in curves {
            let thorough = tier == "thorough";
            for at in if thorough { vec![0usize, 4095, 4096, 4097, 65_535, 65_536, 65_537, 69_999] } else { vec![4096, 65_536, 69_999] } {
                items.push(ScaleItem { curve: c, kind: 0, total: 70_000, at });
            }
            for at in if thorough { vec![0usize, 2047, 4095, 4096, 4199] } else { vec![4096] } {
                items.push(ScaleItem { curve: c, kind: 1, total: 4200, at });
            }
            for at in if thorough { vec![1usize, 1023, 1024, 1025, 2099] } else { vec![1024, 1099] } {
                items.push(ScaleItem { curve: c, kind: 2, total: if thorough { 2100 } else { 1100 }, at });
            }
            for at in if thorough { vec![0usize, 4094, 4095, 4099] } else { vec![] } {
                items.push(ScaleItem { curve: c, kind: 3, total: 4100, at });
            }
            if !thorough {
                items.push(ScaleItem { curve: c, kind: 3, total: 1100, at: 1050 });
            }
            for at in if thorough { vec![0usize, 4096, 65_535, 65_536, 65_999] } else { vec![0, 65_999] } {
                items.push(ScaleItem { curve: c, kind: 4, total: 66_000, at });
            }
            for (total, at) in if thorough { vec![(66_000usize, 0usize), (66_000, 33_000), (66_000, 65_998), (4100, 2000), (300, 7)] } else { vec![(66_000, 65_000), (300, 7)] } {
                items.push(ScaleItem { curve: c, kind: 5, total, at });
            }
            for (total, at) in [(2usize, 1usize), (2, 0), (3, 1), (8, 7), (17, 5)] {
                items.push(ScaleItem { curve: c, kind: 6, total, at });
            }
        }
        let mut o = crate::runner::enumerate("c02/scale", &items, &|i| i.encode(), &|i, col| with_curve!(i.curve, G => scale_case::<G>(i, col)));
        o.exhaustive = false;
        rep.outcome.merge(o);
    }
    for c in [
        "inject:linear", "inject:constant-only", "inject:committed-only", "inject:gate", "inject:cancelling-linear-pair",
        "inject:cancelling-gate-pair", "violated:gate:phase2", "violated:row:phase2", "violated:row:constant-only",
        "violated:row:committed-only",
    ] {
        rep.required_classes.push((c.to_string(), 0.02));
    }
    rep.finish()
}
