//! One module per property.
use crate::runner::{load_case_bytes, Collector, Failure};

pub fn scale(tier: &str, quick: u64, thorough: u64) -> u64 {
    if tier == "thorough" {
        thorough
    } else {
        quick
    }
}

macro_rules! props {
    ($($id:literal => $m:ident),* $(,)?) => {
        $(pub mod $m;)*
        pub fn run(id: &str, tier: &str, seed: u64) -> i32 {
            match id {
                $($id => $m::run(tier, seed),)*
                _ => {
                    eprintln!("unknown property {}", id);
                    2
                }
            }
        }
        fn replay_case(id: &str, sub: &str, bytes: &[u8], col: &mut Collector) -> Option<Result<(), Failure>> {
            match id {
                $($id => Some($m::replay(sub, bytes, col)),)*
                _ => None,
            }
        }
    };
}

props! {
    "C01" => c01,
    "C02" => c02,
    "C03" => c03,
    "C04" => c04,
    "C05" => c05,
    "C06" => c06,
    "C07" => c07,
    "C08" => c08,
    "C09" => c09,
    "C10" => c10,
    "C11" => c11,
    "C12" => c12,
    "C13" => c13,
    "C14" => c14,
    "C15" => c15,
    "C16" => c16,
    "C17" => c17,
    "C18" => c18,
}

pub fn replay(id: &str, path: &str) -> i32 {
    let Some(bytes) = load_case_bytes(path) else {
        eprintln!("cannot read choice_bytes from {} (cases found by exhaustive enumeration carry their parameters in 'case' instead)", path);
        return 2;
    };
    let v: serde_json::Value = serde_json::from_str(&std::fs::read_to_string(path).unwrap()).unwrap();
    let sub = v["sub_check"].as_str().unwrap_or("").to_string();
    let mut col = Collector::default();
    match replay_case(id, &sub, &bytes, &mut col) {
        None => {
            eprintln!("unknown property {}", id);
            2
        }
        Some(Ok(())) => {
            println!("replay {}: property holds on this case", path);
            0
        }
        Some(Err(f)) => {
            println!("replay {}: {}", path, f.msg);
            println!("{}", serde_json::to_string_pretty(&f.case).unwrap());
            println!("VIOLATION property={} replay={}", id, path);
            1
        }
    }
}
