//! One module per property.
pub mod c01;

use crate::runner::{load_case_bytes, Collector};

pub fn scale(tier: &str, quick: u64, thorough: u64) -> u64 {
    if tier == "thorough" {
        thorough
    } else {
        quick
    }
}

pub fn run(id: &str, tier: &str, seed: u64) -> i32 {
    match id {
        "C01" => c01::run(tier, seed),
        _ => {
            eprintln!("unknown property {}", id);
            2
        }
    }
}

pub fn replay(id: &str, path: &str) -> i32 {
    let Some(bytes) = load_case_bytes(path) else {
        eprintln!("cannot read choice_bytes from {}", path);
        return 2;
    };
    let v: serde_json::Value = serde_json::from_str(&std::fs::read_to_string(path).unwrap()).unwrap();
    let sub = v["sub_check"].as_str().unwrap_or("").to_string();
    let mut col = Collector::default();
    let r = match id {
        "C01" => c01::replay(&sub, &bytes, &mut col),
        _ => {
            eprintln!("unknown property {}", id);
            return 2;
        }
    };
    match r {
        Ok(()) => {
            println!("replay {}: property holds on this case", path);
            0
        }
        Err(f) => {
            println!("replay {}: {}", path, f.msg);
            println!("{}", serde_json::to_string_pretty(&f.case).unwrap());
            println!("VIOLATION property={} replay={}", id, path);
            1
        }
    }
}
