//! C07 — batch verification accepts exactly when every instance verifies individually.
use crate::choices::Choices;
use crate::curves::{Curve, CurveTag};
use crate::drive::{run_batch, run_prover, run_verifier, BatchMember, ProveOpts, VerifyOpts};
use crate::mirror::ProofMirror;
use crate::program::{Op, Program};
use crate::props::c08::{fixture, fixture_program, Fixture};
use crate::runner::{fp_of, replay_corpus, search, Collector, Failure, Report};
use crate::scalars::ScalarSpec;
use crate::with_curve;
use ark_bulletproofs::r1cs::R1CSProof;
use ark_ec::AffineRepr;
use serde_json::json;
use std::cell::RefCell;
use std::collections::HashMap;
use std::rc::Rc;

type Fr<G> = <G as AffineRepr>::ScalarField;

const SHAPES: [(usize, usize); 8] = [(0, 0), (1, 0), (2, 0), (3, 1), (4, 0), (5, 2), (8, 0), (2, 2)];

struct Member<G: AffineRepr> {
    prog: Rc<Program>,
    commitments: Vec<G>,
    proof: R1CSProof<G>,
    kind: String,
    shape: (usize, usize),
}

thread_local! {
    static BAD: RefCell<HashMap<(usize, usize, usize), Rc<dyn std::any::Any>>> = RefCell::new(HashMap::new());
}

/// proof made by the honest procedure from a witness that violates the last constraint
fn bad_witness<G: CurveTag>(g: usize, g2: usize) -> Rc<Fixture<G>> {
    BAD.with(|m| {
        let key = (G::CURVE.index(), g, g2);
        if let Some(x) = m.borrow().get(&key) {
            return x.clone().downcast::<Fixture<G>>().unwrap();
        }
        let mut prog = fixture_program(G::CURVE, g, g2);
        for op in prog.ops.iter_mut() {
            if let Op::Constrain { err, .. } = op {
                *err = Some(ScalarSpec::Small(3));
            }
        }
        let p = run_prover::<G>(&prog, &ProveOpts::default());
        let proof = p.proof.expect("prover emits a proof for a bad witness");
        let mirror = ProofMirror::from_proof(&proof);
        let f = Rc::new(Fixture { prog, commitments: p.commitments, bytes: p.bytes.unwrap(), proof, mirror });
        m.borrow_mut().insert(key, f.clone() as Rc<dyn std::any::Any>);
        f
    })
}

fn member_from<G: CurveTag>(fx: &Fixture<G>, m: &ProofMirror<G>, kind: String, shape: (usize, usize)) -> Option<Member<G>> {
    Some(Member { prog: Rc::new(fx.prog.clone()), commitments: fx.commitments.clone(), proof: m.to_real().ok()?, kind, shape })
}

fn case<G: CurveTag>(bytes: &[u8], col: &mut Collector, max_members: usize) -> Result<(), Failure> {
    let mut ch = Choices::new(bytes);
    // a few percent of the batches are long (tens to hundreds of cheap members)
    let long_batch = ch.chance(8);
    let n_groups = if long_batch { 40 + ch.below(if max_members > 8 { 260 } else { 90 }) } else { ch.below(max_members + 1) };
    let mut members: Vec<Member<G>> = vec![];
    let mut has_cancel = false;
    // a quarter of the batches: valid members plus exactly one invalid one at a chosen position
    let single_invalid = n_groups >= 1 && ch.chance(64);
    if single_invalid {
        for _ in 0..n_groups - 1 {
            let shape = SHAPES[ch.below(SHAPES.len())];
            let fx = fixture::<G>(shape.0, shape.1);
            members.push(member_from(&fx, &fx.mirror, "valid".into(), shape).unwrap());
        }
        let shape = SHAPES[ch.below(SHAPES.len())];
        let fx = fixture::<G>(shape.0, shape.1);
        let bad = match ch.below(3) {
            0 => {
                let b = bad_witness::<G>(shape.0, shape.1);
                member_from(&b, &b.mirror, "bad-witness".into(), shape).unwrap()
            }
            1 => {
                let mut m = fx.mirror.clone();
                m.ipp.a += Fr::<G>::from(1u64);
                member_from(&fx, &m, "field-mutated:a".into(), shape).unwrap()
            }
            _ => {
                let mut m = fx.mirror.clone();
                m.t_x += Fr::<G>::from(1u64);
                member_from(&fx, &m, "field-mutated:t_x".into(), shape).unwrap()
            }
        };
        let pos = match ch.below(3) {
            0 => 0,
            1 => members.len(),
            _ => ch.below(members.len() + 1),
        };
        members.insert(pos, bad);
    }
    while !single_invalid && members.len() < n_groups {
        let shape = if long_batch { SHAPES[ch.below(3)] } else { SHAPES[ch.below(SHAPES.len())] };
        let fx = fixture::<G>(shape.0, shape.1);
        match ch.weighted(&if long_batch { [88u32, 2, 2, 1, 5, 1, 1, 0] } else { [42, 8, 8, 6, 16, 6, 6, 8] }) {
            0 => members.push(member_from(&fx, &fx.mirror, "valid".into(), shape).unwrap()),
            1 => {
                let b = bad_witness::<G>(shape.0, shape.1);
                members.push(member_from(&b, &b.mirror, "bad-witness".into(), shape).unwrap());
            }
            2 => {
                let mut m = fx.mirror.clone();
                let i = ch.below(5);
                *m.scalar_mut(i) += ScalarSpec::gen_nonzero(&mut ch).to_f::<Fr<G>>();
                members.extend(member_from(&fx, &m, format!("field-mutated:{}", crate::mirror::SCALAR_NAMES[i]), shape));
            }
            3 => {
                // statement mismatch: the proof is checked against other commitments
                let other = bad_witness::<G>(shape.0, shape.1);
                let mut mm = member_from(&fx, &fx.mirror, "statement-mismatch".into(), shape).unwrap();
                mm.commitments = other.commitments.clone();
                let _ = &other;
                // make sure the statement really differs
                mm.commitments[0] = (ark_ec::CurveGroup::into_affine(mm.commitments[0].into_group() + G::generator().into_group())) as G;
                members.push(mm);
            }
            // correlated invalid members whose residuals cancel under equal weights
            4 => {
                has_cancel = true;
                let d: Fr<G> = ScalarSpec::gen_nonzero(&mut ch).to_f();
                let which = ch.below(4);
                let mut plus = fx.mirror.clone();
                let mut minus = fx.mirror.clone();
                match which {
                    0 => {
                        plus.ipp.a += d;
                        minus.ipp.a -= d;
                    }
                    1 => {
                        plus.ipp.b += d;
                        minus.ipp.b -= d;
                    }
                    2 => {
                        plus.t_x_blinding += d;
                        minus.t_x_blinding -= d;
                    }
                    _ => {
                        plus.e_blinding += d;
                        minus.e_blinding -= d;
                    }
                }
                let name = ["a±d", "b±d", "t_x_blinding±d", "e_blinding±d"][which];
                members.extend(member_from(&fx, &plus, format!("cancelling:{}:+", name), shape));
                members.extend(member_from(&fx, &minus, format!("cancelling:{}:-", name), shape));
                if ch.chance(60) {
                    members.push(member_from(&fx, &fx.mirror, "valid".into(), shape).unwrap());
                }
            }
            // three-way cancellation: +d, +d', -(d+d')
            5 => {
                has_cancel = true;
                let d: Fr<G> = ScalarSpec::gen_nonzero(&mut ch).to_f();
                let d2: Fr<G> = ScalarSpec::gen_nonzero(&mut ch).to_f();
                for (delta, nm) in [(d, "+d"), (d2, "+d'"), (-(d + d2), "-(d+d')")] {
                    let mut m = fx.mirror.clone();
                    m.ipp.a += delta;
                    members.extend(member_from(&fx, &m, format!("cancelling3:a{}", nm), shape));
                }
            }
            // proofs from the harness's own prover: honest, or with junk second-phase points, or with
            // one deviating term (transcript-consistent, so only the equation decides)
            7 => {
                use crate::ownprover::{own_prove, Cheat};
                let cheat: Cheat<Fr<G>> = match ch.below(4) {
                    0 => Cheat::None,
                    1 if shape.1 == 0 => Cheat::JunkPhase2(ch.byte() as u64),
                    2 => Cheat::EBlind(Fr::<G>::from(1 + ch.byte() as u64)),
                    _ => Cheat::TShift(1, Fr::<G>::from(1 + ch.byte() as u64)),
                };
                let op = own_prove::<G>(&fx.prog, 1 + ch.byte() as u64, &cheat);
                if let Ok(pf) = op.mirror.to_real() {
                    members.push(Member { prog: Rc::new(fx.prog.clone()), commitments: op.commitments.clone(), proof: pf, kind: format!("own-prover:{}", format!("{:?}", cheat).split('(').next().unwrap_or("")), shape });
                }
            }
            // duplicates of one invalid proof
            _ => {
                let mut m = fx.mirror.clone();
                m.ipp.b += Fr::<G>::from(1u64);
                for _ in 0..2 {
                    members.extend(member_from(&fx, &m, "duplicate-invalid".into(), shape));
                }
            }
        }
    }
    // random order
    for i in (1..if single_invalid { 0 } else { members.len() }).rev() {
        let j = ch.below(i + 1);
        members.swap(i, j);
    }
    let need = members.iter().map(|m| (m.shape.0).next_power_of_two().max(1)).max().unwrap_or(1);
    let cap = match ch.weighted(&[70, 20, 10]) {
        0 => 256,
        1 => need,
        _ => (need / 2).max(1), // too small for the largest member(s)
    };
    let batch_seed = ch.u16() as u64;
    let what = |detail: String| json!({"curve": G::CURVE.name(), "capacity": cap, "members": members.iter().map(|m| format!("{:?}:{}", m.shape, m.kind)).collect::<Vec<_>>(), "detail": detail});
    // individual verdicts on fresh verifiers
    let mut singles = vec![];
    for m in &members {
        let v = run_verifier::<G>(&m.prog, &m.commitments, &m.proof, &VerifyOpts { cap: Some(cap), ..Default::default() });
        if v.panic.is_some() {
            col.note("individual verify panicked (left to C08)");
            return Ok(());
        }
        singles.push(v.accepted());
    }
    let all_ok = singles.iter().all(|x| *x);
    let bm: Vec<BatchMember<G>> = members.iter().map(|m| BatchMember { prog: &m.prog, commitments: &m.commitments, proof: &m.proof }).collect();
    let (res, panic) = run_batch::<G>(&bm, cap, batch_seed);
    if panic.is_some() {
        col.note("batch_verify panicked (left to C08)");
        return Ok(());
    }
    let batch_ok = matches!(res, Some(Ok(())));
    if batch_ok != all_ok {
        let n_invalid = singles.iter().filter(|x| !**x).count();
        return Err(Failure::new(
            format!("C07:batch-{}:{}", if batch_ok { "accepts" } else { "rejects" }, if has_cancel && batch_ok { "cancelling-set" } else if n_invalid == 0 { "all-valid" } else { "invalid-member" }),
            format!("batch_verify = {:?} but the individual verdicts are {:?}", res, singles),
            what(format!("singles={:?}", singles)),
        ));
    }
    let n = members.len();
    let sizes: std::collections::BTreeSet<usize> = members.iter().map(|m| m.shape.0.next_power_of_two().max(1)).collect();
    col.class(&format!("members={}", n.min(9)));
    if n >= 40 {
        col.class("long-batch(>=40)");
    }
    if n == 0 {
        col.class("empty-batch");
    }
    if all_ok && n > 0 {
        col.class("all-valid");
    }
    if !all_ok && singles.iter().filter(|x| !**x).count() == 1 {
        let pos = singles.iter().position(|x| !*x).unwrap();
        col.class(if n == 1 { "one-invalid-alone" } else if pos == 0 { "one-invalid-at-head" } else if pos == n - 1 { "one-invalid-at-tail" } else { "one-invalid-in-middle" });
    }
    if !all_ok {
        col.class("some-invalid");
    }
    if has_cancel {
        col.class("cancelling-set");
    }
    if sizes.len() > 1 {
        col.class("mixed-padded-sizes");
    }
    if members.iter().any(|m| m.shape.1 > 0) && members.iter().any(|m| m.shape.1 == 0) {
        col.class("mixed-phases");
    }
    if cap < need {
        col.class("capacity-insufficient-for-a-member");
    }
    let nt = (n >= 2 && !all_ok) || sizes.len() > 1;
    if nt {
        col.nontrivial(fp_of(&(G::CURVE, cap, members.iter().map(|m| (m.shape, m.kind.clone())).collect::<Vec<_>>())));
    }
    col.sample(nt, || what(format!("batch={:?} singles={:?}", res.as_ref().map(|r| r.is_ok()), singles)));
    Ok(())
}

/// A long batch of cheap valid members with one cancelling pair (final scalar a shifted by +d
/// and -d) at positions p and p + dist: must be rejected whatever the distance is.
fn distance_case<G: CurveTag>(total: usize, p: usize, dist: usize, col: &mut Collector) -> Result<(), Failure> {
    let fx = fixture::<G>(0, 0);
    let fx1 = fixture::<G>(1, 0);
    let mut plus = fx.mirror.clone();
    let mut minus = fx.mirror.clone();
    let d = Fr::<G>::from(5u64);
    plus.ipp.b += d;
    minus.ipp.b -= d;
    let (pp, pm) = (plus.to_real().unwrap(), minus.to_real().unwrap());
    let mut members: Vec<BatchMember<G>> = vec![];
    for i in 0..total {
        if i == p {
            members.push(BatchMember { prog: &fx.prog, commitments: &fx.commitments, proof: &pp });
        } else if i == p + dist {
            members.push(BatchMember { prog: &fx.prog, commitments: &fx.commitments, proof: &pm });
        } else if i % 5 == 0 {
            members.push(BatchMember { prog: &fx1.prog, commitments: &fx1.commitments, proof: &fx1.proof });
        } else {
            members.push(BatchMember { prog: &fx.prog, commitments: &fx.commitments, proof: &fx.proof });
        }
    }
    let (r, pn) = run_batch::<G>(&members, 256, (p * 1000 + dist) as u64);
    if pn.is_some() {
        return Ok(());
    }
    if matches!(r, Some(Ok(()))) {
        return Err(Failure::new(
            "C07:batch-accepts:cancelling-pair-at-distance",
            format!("a batch of {} members with a cancelling invalid pair at positions {} and {} (distance {}) is accepted", total, p, p + dist, dist),
            json!({"curve": G::CURVE.name(), "members": total, "positions": [p, p + dist]}),
        ));
    }
    col.class("distance-sweep");
    col.nontrivial(fp_of(&(G::CURVE, total, p, dist)));
    Ok(())
}

/// A very long batch (thousands of cheap members) that is all valid, or has exactly one member
/// that fails on its own at `bad` (None: all valid): the verdict must not depend on how the
/// batch is partitioned or accumulated internally.
fn huge_case<G: CurveTag>(total: usize, bad: Option<usize>, col: &mut Collector) -> Result<(), Failure> {
    let fx = fixture::<G>(0, 0);
    let fx1 = fixture::<G>(1, 0);
    let mut m = fx1.mirror.clone();
    m.t_x += Fr::<G>::from(3u64);
    let badp = m.to_real().unwrap();
    // the oracle is the member's own verdict
    if run_verifier::<G>(&fx1.prog, &fx1.commitments, &badp, &VerifyOpts::default()).accepted() {
        col.note("shifted proof accepted on its own (left to C04)");
        return Ok(());
    }
    let members: Vec<BatchMember<G>> = (0..total)
        .map(|i| {
            if Some(i) == bad {
                BatchMember { prog: &fx1.prog, commitments: &fx1.commitments, proof: &badp }
            } else if i % 7 == 3 {
                BatchMember { prog: &fx1.prog, commitments: &fx1.commitments, proof: &fx1.proof }
            } else {
                BatchMember { prog: &fx.prog, commitments: &fx.commitments, proof: &fx.proof }
            }
        })
        .collect();
    let (r, pn) = run_batch::<G>(&members, 4, total as u64 + bad.unwrap_or(0) as u64);
    let what = || json!({"curve": G::CURVE.name(), "members": total, "invalid_member_at": bad});
    if let Some(pn) = pn {
        return Err(Failure::new("C07:huge-batch-panic", format!("batch_verify panicked on {} members: {}", total, pn), what()));
    }
    match (bad, r) {
        (Some(b), Some(Ok(()))) => {
            return Err(Failure::new(
                "C07:batch-accepts:invalid-member-in-huge-batch",
                format!("a batch of {} members is accepted although member {} fails on its own (t_x shifted)", total, b),
                what(),
            ))
        }
        (None, Some(Err(e))) => {
            return Err(Failure::new("C07:batch-rejects:huge-all-valid", format!("a batch of {} valid members is rejected: {:?}", total, e), what()));
        }
        _ => {}
    }
    col.class("huge-batch");
    col.nontrivial(fp_of(&(G::CURVE, total, bad)));
    Ok(())
}

/// Invalid copies of one proof whose errors are the alternating binomial coefficients of order k
/// (d·(1, −2, 1), d·(1, −3, 3, −1), …) at equally spaced positions: they cancel whenever the
/// per-instance weights are a polynomial of degree < k in the position.
fn binomial_case<G: CurveTag>(order: usize, start: usize, gap: usize, col: &mut Collector) -> Result<(), Failure> {
    let fx = fixture::<G>(1, 0);
    let d = Fr::<G>::from(11u64);
    let mut coeff: Vec<i64> = vec![1];
    for _ in 0..order {
        let mut next = vec![0i64; coeff.len() + 1];
        for (i, c) in coeff.iter().enumerate() {
            next[i] += c;
            next[i + 1] -= c;
        }
        coeff = next;
    }
    let altered: Vec<R1CSProof<G>> = coeff
        .iter()
        .map(|c| {
            let mut m = fx.mirror.clone();
            let f = if *c < 0 { -Fr::<G>::from((-*c) as u64) } else { Fr::<G>::from(*c as u64) };
            m.ipp.a += d * f;
            m.to_real().unwrap()
        })
        .collect();
    let total = start + gap * order + 2;
    let members: Vec<BatchMember<G>> = (0..total)
        .map(|i| {
            let j = if i >= start && (i - start) % gap == 0 && (i - start) / gap <= order { Some((i - start) / gap) } else { None };
            BatchMember { prog: &fx.prog, commitments: &fx.commitments, proof: j.map(|j| &altered[j]).unwrap_or(&fx.proof) }
        })
        .collect();
    let (r, pn) = run_batch::<G>(&members, 4, (order * 1000 + start * 10 + gap) as u64);
    if pn.is_none() && matches!(r, Some(Ok(()))) {
        return Err(Failure::new(
            "C07:batch-accepts:binomial-pattern",
            format!("a batch whose invalid members carry the errors d·{:?} at positions {}, {}+{}, … is accepted: the per-instance weights are a low-degree function of the position", coeff, start, start, gap),
            json!({"curve": G::CURVE.name(), "coefficients": coeff, "start": start, "gap": gap, "members": total}),
        ));
    }
    col.class("binomial-pattern");
    col.nontrivial(fp_of(&(G::CURVE, order, start, gap)));
    Ok(())
}

/// a cancelling pair (final scalar ±d) at two given positions of a very long batch
fn far_pair_case<G: CurveTag>(total: usize, p: usize, q: usize, col: &mut Collector) -> Result<(), Failure> {
    let fx = fixture::<G>(0, 0);
    let (mut plus, mut minus) = (fx.mirror.clone(), fx.mirror.clone());
    let d = Fr::<G>::from(9u64);
    plus.ipp.b += d;
    minus.ipp.b -= d;
    let (pp, pm) = (plus.to_real().unwrap(), minus.to_real().unwrap());
    let members: Vec<BatchMember<G>> = (0..total).map(|i| BatchMember { prog: &fx.prog, commitments: &fx.commitments, proof: if i == p { &pp } else if i == q { &pm } else { &fx.proof } }).collect();
    let (r, pn) = run_batch::<G>(&members, 4, (p * 7 + q) as u64);
    if pn.is_none() && matches!(r, Some(Ok(()))) {
        return Err(Failure::new(
            "C07:batch-accepts:cancelling-pair-far-apart",
            format!("a batch of {} members with a cancelling invalid pair at positions {} and {} is accepted", total, p, q),
            json!({"curve": G::CURVE.name(), "members": total, "positions": [p, q]}),
        ));
    }
    col.class("far-pair");
    col.nontrivial(fp_of(&(G::CURVE, total, p, q)));
    Ok(())
}

/// Two copies of one valid proof with the final scalar shifted by +k·d and -j·d at positions
/// p and q of a short batch: weights that are small integer multiples of one another would let
/// the pair through.
fn ratio_case<G: CurveTag>(p: usize, q: usize, k: u64, j: u64, col: &mut Collector) -> Result<(), Failure> {
    let fx = fixture::<G>(1, 0);
    let d = Fr::<G>::from(7u64);
    let mut plus = fx.mirror.clone();
    let mut minus = fx.mirror.clone();
    plus.ipp.a += d * Fr::<G>::from(k);
    minus.ipp.a -= d * Fr::<G>::from(j);
    let (pp, pm) = (plus.to_real().unwrap(), minus.to_real().unwrap());
    let total = q + 2;
    let members: Vec<BatchMember<G>> = (0..total)
        .map(|i| BatchMember { prog: &fx.prog, commitments: &fx.commitments, proof: if i == p { &pp } else if i == q { &pm } else { &fx.proof } })
        .collect();
    let (r, pn) = run_batch::<G>(&members, 256, (p * 100 + q * 10) as u64 + k + j);
    if pn.is_none() && matches!(r, Some(Ok(()))) {
        return Err(Failure::new(
            "C07:batch-accepts:weighted-cancelling-pair",
            format!("a batch with errors +{}d at position {} and -{}d at position {} is accepted: the per-instance weights are not independent", k, p, j, q),
            json!({"curve": G::CURVE.name(), "positions": [p, q], "multiples": [k, j]}),
        ));
    }
    col.class("ratio-sweep");
    col.nontrivial(fp_of(&(G::CURVE, p, q, k, j)));
    Ok(())
}

fn dispatch(sub: &str, bytes: &[u8], col: &mut Collector) -> Result<(), Failure> {
    let mut it = sub.split('/');
    let _ = it.next();
    let curve = Curve::from_name(it.next().unwrap_or("")).unwrap_or(Curve::Secq);
    let mm: usize = it.next().and_then(|s| s.parse().ok()).unwrap_or(8);
    with_curve!(curve, G => case::<G>(bytes, col, mm))
}

pub fn replay(sub: &str, bytes: &[u8], col: &mut Collector) -> Result<(), Failure> {
    if sub == "c07/ratio-sweep" && bytes.len() == 5 {
        return with_curve!(Curve::ALL[bytes[0] as usize % 3], G => ratio_case::<G>(bytes[1] as usize, bytes[2] as usize, bytes[3] as u64, bytes[4] as u64, col));
    }
    if sub == "c07/binomial" && bytes.len() == 4 {
        return with_curve!(Curve::ALL[bytes[0] as usize % 3], G => binomial_case::<G>(bytes[1] as usize, bytes[2] as usize, bytes[3] as usize, col));
    }
    if sub == "c07/far-pair" && bytes.len() == 7 {
        let u = |i: usize| (bytes[i] as usize) << 8 | bytes[i + 1] as usize;
        return with_curve!(Curve::ALL[bytes[0] as usize % 3], G => far_pair_case::<G>(u(1), u(3), u(5), col));
    }
    if sub == "c07/huge-batch" && bytes.len() == 7 {
        let total = (bytes[1] as usize) << 16 | (bytes[2] as usize) << 8 | bytes[3] as usize;
        let bad = (bytes[4] as usize) << 16 | (bytes[5] as usize) << 8 | bytes[6] as usize;
        return with_curve!(Curve::ALL[bytes[0] as usize % 3], G => huge_case::<G>(total, if bad == 0xff_ffff { None } else { Some(bad) }, col));
    }
    if sub == "c07/distance-sweep" && bytes.len() == 5 {
        let (p, dist) = ((bytes[1] as usize) << 8 | bytes[2] as usize, (bytes[3] as usize) << 8 | bytes[4] as usize);
        return with_curve!(Curve::ALL[bytes[0] as usize % 3], G => distance_case::<G>(p + dist + 3, p, dist, col));
    }
    dispatch(sub, bytes, col)
}

pub fn run(tier: &str, seed: u64) -> i32 {
    let mut rep = Report::new("C07", tier, seed);
    rep.rule = "batches of 0..8 (quick) / 0..24 (thorough) members in random order, drawn from: valid proofs of 8 shapes (0..8 gates, one- and two-phase), honest-procedure proofs of a bad witness, field-mutated proofs, statement-mismatched proofs, capacity-insufficient members, and correlated invalid sets whose residuals cancel under equal weights (a±d, b±d, t̃±d, ẽ±d, three-way +d,+d',−(d+d'), duplicates of one invalid proof); oracle: batch_verify is Ok ⇔ every member verifies individually (fresh verifiers, same capacity). Non-trivial = ≥ 2 members not all valid, or mixed padded sizes; distinct = (capacity, member list)".into();
    rep.assumptions = vec!["a sound batch verifier accepts a batch with an invalid member with probability ≤ 1/|F| per draw of the per-instance weights; ignored".into()];
    let mm = if tier == "thorough" { 24 } else { 8 };
    let n = super::scale(tier, 1500, 8000);
    for c in Curve::ALL {
        if !rep.outcome.found.is_empty() {
            break;
        }
        let sub = format!("c07/{}/{}", c.name(), mm);
        rep.outcome.merge(replay_corpus("C07", &sub, &|b, col| dispatch(&sub, b, col)));
        rep.outcome.merge(search(&sub, seed, n, 200, &|b, col| dispatch(&sub, b, col)));
    }
    // cancelling pairs at chosen distances inside long batches
    if rep.outcome.found.is_empty() {
        let mut items = vec![];
        let curves: Vec<Curve> = if tier == "thorough" { Curve::ALL.to_vec() } else { vec![Curve::ALL[(seed % 3) as usize]] };
        for c in curves {
            for dist in [1usize, 2, 3, 4, 7, 8, 15, 16, 31, 32, 63, 64, 127, 128, 255, 256, 257, 511, 512, 513] {
                for p in [0usize, 1, 6] {
                    items.push((c, p, dist));
                }
            }
        }
        let o = crate::runner::enumerate(
            "c07/distance-sweep",
            &items,
            &|(c, p, d)| vec![c.index() as u8, (*p >> 8) as u8, *p as u8, (*d >> 8) as u8, *d as u8],
            &|(c, p, d), col| with_curve!(*c, G => distance_case::<G>(*p + *d + 3, *p, *d, col)),
        );
        rep.outcome.merge(o);
        rep.outcome.exhaustive = false;
    }
    // small-integer weight ratios between two positions
    if rep.outcome.found.is_empty() {
        let mut items = vec![];
        let curves: Vec<Curve> = if tier == "thorough" { Curve::ALL.to_vec() } else { vec![Curve::ALL[((seed + 1) % 3) as usize]] };
        for c in curves {
            for (p, q) in [(0usize, 1usize), (0, 2), (1, 2), (0, 3), (1, 3), (2, 3), (0, 7), (3, 7)] {
                for k in 1..=5u64 {
                    for j in 1..=5u64 {
                        items.push((c, p, q, k, j));
                    }
                }
            }
        }
        let o = crate::runner::enumerate(
            "c07/ratio-sweep",
            &items,
            &|(c, p, q, k, j)| vec![c.index() as u8, *p as u8, *q as u8, *k as u8, *j as u8],
            &|(c, p, q, k, j), col| with_curve!(*c, G => ratio_case::<G>(*p, *q, *k, *j, col)),
        );
        rep.outcome.merge(o);
        rep.outcome.exhaustive = false;
    }
    // thousands of members: all valid, and one invalid member at the head / middle / tail
    if rep.outcome.found.is_empty() {
        let mut items: Vec<(Curve, usize, Option<usize>)> = vec![];
        if tier == "thorough" {
            for c in Curve::ALL {
                for total in [1025usize, 4097, 8200, 20011] {
                    for bad in [None, Some(0), Some(total / 2), Some(total - 1), Some(total.saturating_sub(1030))] {
                        items.push((c, total, bad));
                    }
                }
            }
        } else {
            let c = Curve::ALL[((seed + 2) % 3) as usize];
            items.extend([(c, 1025, Some(0)), (c, 4099, None), (c, 4099, Some(0)), (c, 4099, Some(2000)), (c, 4099, Some(4098)), (c, 9001, Some(17))]);
        }
        let o = crate::runner::enumerate(
            "c07/huge-batch",
            &items,
            &|(c, t, b)| {
                let b = b.unwrap_or(0xff_ffff);
                vec![c.index() as u8, (*t >> 16) as u8, (*t >> 8) as u8, *t as u8, (b >> 16) as u8, (b >> 8) as u8, b as u8]
            },
            &|(c, t, b), col| with_curve!(*c, G => huge_case::<G>(*t, *b, col)),
        );
        rep.outcome.merge(o);
        rep.outcome.exhaustive = false;
    }
    // errors in binomial patterns at equally spaced positions; cancelling pairs far apart
    if rep.outcome.found.is_empty() {
        let curves: Vec<Curve> = if tier == "thorough" { Curve::ALL.to_vec() } else { vec![Curve::ALL[(seed % 3) as usize]] };
        let mut items = vec![];
        let mut far = vec![];
        for c in curves {
            for order in 2..=5usize {
                for (start, gap) in [(0usize, 1usize), (1, 1), (0, 2), (3, 3), (2, 7)] {
                    items.push((c, order, start, gap));
                }
            }
            for (total, p, q) in if tier == "thorough" {
                {
                    let mut v = vec![(2100usize, 5usize, 1029usize), (2100, 0, 1024), (2100, 1023, 2047), (4200, 100, 2148), (4200, 7, 4103), (8300, 3, 8195), (3000, 1, 2049), (1300, 0, 1025)];
                    for total in [2048usize, 2049, 2560, 3072, 4096, 8192] {
                        for p in [0usize, 5, 100, 513, 1000, 1023] {
                            for m in 1..=3usize {
                                if p + 1024 * m < total {
                                    v.push((total, p, p + 1024 * m));
                                }
                            }
                        }
                    }
                    for d in [256usize, 512, 2048, 4096] {
                        v.push((2 * d + 40, 17, 17 + d));
                    }
                    v
                }
            } else {
                // batch lengths at and off the multiples of 2^10, pairs a multiple of 2^10 apart
                vec![(2048, 5, 1029), (2048, 1000, 2024), (4096, 100, 2148), (4096, 7, 3079), (2560, 600, 1624), (3000, 1000, 2024), (2100, 100, 1124), (2100, 5, 1029)]
            } {
                far.push((c, total, p, q));
            }
        }
        let mut o = crate::runner::enumerate("c07/binomial", &items, &|(c, o, s, g)| vec![c.index() as u8, *o as u8, *s as u8, *g as u8], &|(c, o, s, g), col| with_curve!(*c, G => binomial_case::<G>(*o, *s, *g, col)));
        o.exhaustive = false;
        rep.outcome.merge(o);
        let mut o = crate::runner::enumerate(
            "c07/far-pair",
            &far,
            &|(c, t, p, q)| vec![c.index() as u8, (*t >> 8) as u8, *t as u8, (*p >> 8) as u8, *p as u8, (*q >> 8) as u8, *q as u8],
            &|(c, t, p, q), col| with_curve!(*c, G => far_pair_case::<G>(*t, *p, *q, col)),
        );
        o.exhaustive = false;
        rep.outcome.merge(o);
    }
    for (c, f) in [("all-valid", 0.02), ("cancelling-set", 0.1), ("mixed-padded-sizes", 0.1), ("mixed-phases", 0.1), ("one-invalid-at-head", 0.02), ("one-invalid-at-tail", 0.02), ("one-invalid-in-middle", 0.008), ("one-invalid-alone", 0.005), ("empty-batch", 0.005), ("capacity-insufficient-for-a-member", 0.02), ("members=1", 0.02), ("long-batch(>=40)", 0.01)] {
        rep.required_classes.push((c.to_string(), f));
    }
    rep.finish()
}
