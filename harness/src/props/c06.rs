//! C06 — Fiat–Shamir discipline: challenges bind all prior messages; roles stay in sync.
use crate::choices::Choices;
use crate::curves::{Curve, CurveTag};
use crate::drive::{run_prover, run_verifier, ProveOpts, VerifyOpts};
use crate::mirror::ProofMirror;
use crate::program::{gen_program, Cap, GenCfg};
use crate::props::c02::gen_bad;
use crate::runner::{replay_corpus, search, Collector, Failure, Report};
use crate::schedule::{schedule, Item};
use crate::tlog::{event_short, Event};
use crate::with_curve;
use serde_json::{json, Value};

/// main-transcript operations of a run: (is_challenge, label, payload); the harness's own
/// follow-up challenge is dropped
pub fn main_ops(log: &[Event], id: u64) -> Vec<(bool, Vec<u8>, Vec<u8>)> {
    log.iter()
        .filter_map(|e| match e {
            Event::Append { id: i, label, msg } if *i == id => Some((false, label.clone(), msg.clone())),
            Event::Challenge { id: i, label, out } if *i == id && label != b"verif-next" => Some((true, label.clone(), out.clone())),
            _ => None,
        })
        .collect()
}

/// Check a role's log against the schedule. Returns the index (into `log`) of the last
/// matched item.
pub fn check_schedule(role: &str, log: &[Event], id: u64, items: &[Item], what: &dyn Fn(String) -> Value) -> Result<usize, Failure> {
    check_schedule_opt(role, log, id, items, false, what)
}

/// `allow_truncated`: the run may stop early (a verifier rejecting a malformed proof); what it
/// did until then must still follow the schedule.
pub fn check_schedule_opt(role: &str, log: &[Event], id: u64, items: &[Item], allow_truncated: bool, what: &dyn Fn(String) -> Value) -> Result<usize, Failure> {
    // positions of main-transcript events in the log
    let evs: Vec<(usize, &Event)> = log
        .iter()
        .enumerate()
        .filter(|(_, e)| match e {
            Event::Append { id: i, .. } => *i == id,
            Event::Challenge { id: i, label, .. } => *i == id && label != b"verif-next",
            _ => false,
        })
        .collect();
    let mut pos = 0usize; // next unexamined event
    let mut last = 0usize;
    for (k, it) in items.iter().enumerate() {
        let mut found = false;
        let mut near_miss: Option<usize> = None;
        while pos < evs.len() {
            let (li, e) = evs[pos];
            pos += 1;
            match (it, e) {
                (Item::Append { label, msg, alt, protocol, .. }, Event::Append { label: l, msg: m, .. }) => {
                    // Elements are recognised by their full encoding (the label's spelling is C18's
                    // business); domain separators by their label; user data by label and bytes.
                    let is_domsep = *protocol && label == b"dom-sep";
                    let hit = if is_domsep {
                        l == label
                    } else if *protocol {
                        m == msg || alt.as_ref() == Some(m)
                    } else {
                        l == label && m == msg
                    };
                    if hit {
                        found = true;
                        last = li;
                        break;
                    }
                    if l == label {
                        near_miss = Some(m.len());
                    }
                    // otherwise: an extra harmless append, tolerated
                }
                (Item::Challenge { label, protocol, .. }, Event::Challenge { label: l, .. }) => {
                    // a label chosen by the application must reach the transcript as given (protocol
                    // labels are matched by position: their spelling is C18's business)
                    if !*protocol && l != label {
                        return Err(Failure::new(
                            format!("C06:{}:user-challenge-label", role),
                            format!("{} derives the application's challenge `{}` under the label `{}`: labels are not passed on unambiguously", role, String::from_utf8_lossy(label), String::from_utf8_lossy(l)),
                            what(format!("item #{} {}", k, it.what())),
                        ));
                    }
                    found = true;
                    last = li;
                    break;
                }
                (Item::Append { .. }, Event::Challenge { label: l, .. }) => {
                    // a challenge squeezed before the item that must precede it
                    let extra = near_miss.map(|n| format!(" (an operation labelled `{}` absorbed {} bytes, which is not the full encoding)", String::from_utf8_lossy(it.label()), n)).unwrap_or_default();
                    return Err(Failure::new(
                        format!("C06:{}:challenge-before:{}", role, it.what().split('[').next().unwrap_or("")),
                        format!("{} derives challenge `{}` before {} has been absorbed{}", role, String::from_utf8_lossy(l), it.what(), extra),
                        what(format!("item #{} {}", k, it.what())),
                    ));
                }
                _ => {}
            }
        }
        if !found && allow_truncated {
            // the run ended here; nothing may have been squeezed after the last matched item
            return Ok(last);
        }
        if !found {
            return Err(Failure::new(
                format!("C06:{}:missing:{}", role, it.what().split('[').next().unwrap_or("")),
                format!("{}'s transcript never performs (in protocol order) the required operation: {}", role, it.what()),
                what(format!("item #{} {}", k, it.what())),
            ));
        }
    }
    // nothing may be squeezed from the main transcript beyond the schedule
    for (_, e) in &evs[pos..] {
        if let Event::Challenge { label, .. } = e {
            return Err(Failure::new(
                format!("C06:{}:unexpected-challenge:{}", role, String::from_utf8_lossy(label)),
                format!("{} derives an unexpected extra challenge `{}` from the main transcript", role, String::from_utf8_lossy(label)),
                what("after the schedule".into()),
            ));
        }
    }
    Ok(last)
}

fn case<G: CurveTag>(bytes: &[u8], col: &mut Collector, large: bool) -> Result<(), Failure> {
    let cut = bytes.len().min(8);
    let mut chi = Choices::new(&bytes[..cut]);
    let bad = chi.chance(64);
    let cfg = if large {
        GenCfg { max_ops1: 16, max_closures: 5, max_ops2: 8, max_commits: 10, big_gates: 140, max_terms: 6, wide: false }
    } else {
        GenCfg { max_ops1: 12, max_closures: 3, max_ops2: 8, max_commits: 4, big_gates: 0, max_terms: 4, wide: false }
    };
    let forced = FORCED.with(|f| f.borrow_mut().take());
    let (mut prog, label) = if let Some(fp) = forced {
        (fp, "honest (fixed large statement)".to_string())
    } else if bad {
        let (p, l) = gen_bad(&bytes[cut..], G::CURVE, &cfg);
        (p, format!("bad witness ({})", l))
    } else {
        let mut ch = Choices::new(&bytes[cut..]);
        (gen_program(&mut ch, G::CURVE, &cfg), "honest".to_string())
    };
    prog.cap_v = Cap::Big;
    let shape = prog.shape();
    if shape.padded() > 256 {
        prog.cap_v = Cap::Exact;
        prog.cap_p = Cap::Exact;
    }
    let p = run_prover::<G>(&prog, &ProveOpts { record: true, ..Default::default() });
    let Some(proof) = p.proof.as_ref() else {
        col.note("prover failed (left to C01)");
        return Ok(());
    };
    let v = run_verifier::<G>(&prog, &p.commitments, proof, &VerifyOpts { record: true, ..Default::default() });
    if v.panic.is_some() {
        col.note("verifier panicked (left to C08)");
        return Ok(());
    }
    let mirror = ProofMirror::from_proof(proof);
    // pre-construction data is absorbed before recording starts
    let items: Vec<Item> = schedule::<G>(&prog, &p.commitments, &mirror).into_iter().skip(prog.pre.len()).collect();
    let what = |s: String| -> Value {
        json!({"program": prog.to_json(), "witness": label, "at": s,
               "prover_log": p.log.iter().map(event_short).collect::<Vec<_>>(), "verifier_log": v.log.iter().map(event_short).collect::<Vec<_>>()})
    };
    // (1)–(3) both roles follow the schedule: labels, order, full payloads, no early squeeze
    let last_v = check_schedule("verifier", &v.log, v.main_id, &items, &what)?;
    check_schedule("prover", &p.log, p.main_id, &items, &what)?;
    // (4) identical operation sequences on the main transcript
    let po = main_ops(&p.log, p.main_id);
    let vo = main_ops(&v.log, v.main_id);
    if po != vo {
        let i = po.iter().zip(vo.iter()).position(|(a, b)| a != b).unwrap_or(po.len().min(vo.len()));
        return Err(Failure::new(
            "C06:roles-out-of-sync",
            format!("prover and verifier transcript operation sequences differ at operation #{} (prover {} ops, verifier {} ops)", i, po.len(), vo.len()),
            what(format!("op #{}", i)),
        ));
    }
    // (4b) domain separation is unambiguous: the statement with its randomized closures and the
    // same statement without them (its first phase alone) are separated differently
    if shape.closures > 0 && chi.chance(60) {
        let mut prog1 = prog.clone();
        prog1.ops.retain(|o| !matches!(o, crate::program::Op::Closure(_)));
        let p1 = run_prover::<G>(&prog1, &ProveOpts { record: true, ..Default::default() });
        if p1.proof.is_some() {
            let seps = |log: &[Event], id: u64| -> Vec<Vec<u8>> { log.iter().filter_map(|e| match e { Event::Append { id: i, label, msg } if *i == id && label == b"dom-sep" => Some(msg.clone()), _ => None }).collect() };
            let (two, one) = (seps(&p.log, p.main_id), seps(&p1.log, p1.main_id));
            if !two.is_empty() && two == one {
                return Err(Failure::new(
                    "C06:domain-separators-ambiguous",
                    format!("the prover absorbs the same domain separators {:?} for a statement with randomized closures and for its first phase alone", two.iter().map(|m| String::from_utf8_lossy(m).to_string()).collect::<Vec<_>>()),
                    what("domain separators".into()),
                ));
            }
            col.class("one-phase-twin-compared");
        }
    }
    // (5) the transcripts handed back drive identical follow-up challenges
    if v.accepted() {
        if p.next_challenge.is_none() || p.next_challenge != v.next_challenge {
            return Err(Failure::new("C06:returned-transcripts-differ", "the transcripts returned by prove_and_return_transcript / verify_and_return_transcript give different follow-up challenges", what("returned transcripts".into())));
        }
        // ... and depend on the proof
        let p2 = run_prover::<G>(&prog, &ProveOpts { seed: Some(prog.seed ^ 0xa5a5), ..Default::default() });
        if p2.bytes.is_some() && p2.bytes != p.bytes && p2.next_challenge == p.next_challenge {
            return Err(Failure::new("C06:returned-transcript-independent-of-proof", "two different proofs lead to the same follow-up challenge", what("second proof".into())));
        }
        col.class("returned-transcripts-compared");
    }
    // (6) the verifier's clone-derived batching weight is squeezed only after everything was absorbed
    for (i, e) in v.log.iter().enumerate() {
        if let Event::Clone { from, to } = e {
            if *from == v.main_id {
                let first_use = v.log.iter().enumerate().find(|(_, x)| matches!(x, Event::Challenge { id, .. } if id == to)).map(|(j, _)| j);
                if i < last_v || first_use.map(|j| j < last_v).unwrap_or(false) {
                    return Err(Failure::new("C06:weight-before-last-message", "the verifier forks the transcript for its combination weight before the last proof element was absorbed", what(format!("clone at log index {}", i))));
                }
                col.class("clone-derived-weight-checked");
            }
        }
    }
    // (7) the verifier absorbs what was actually sent: altered proofs (one element replaced)
    // must appear in its transcript with their own encodings, up to where it stops
    {
        use crate::props::c08::rand_point;
        use ark_ec::{AffineRepr, CurveGroup};
        let mut che = Choices::new(&bytes[..cut]);
        let _ = che.byte();
        for round in 0..2 {
            let mut m2 = mirror.clone();
            let npts = m2.n_points();
            let what_edit: String;
            if che.chance(170) {
                // second-phase placeholders get extra attention
                let i = if che.chance(90) { 3 + che.below(3) } else { che.below(npts) };
                let newp: G = if che.chance(128) { rand_point::<G>(che.u16() as u64) } else { (m2.clone().point_mut(i).into_group() + G::generator().into_group()).into_affine() };
                if newp.is_zero() {
                    continue;
                }
                what_edit = format!("point {} replaced", m2.point_name(i));
                *m2.point_mut(i) = newp;
            } else {
                let i = che.below(3);
                *m2.scalar_mut(i) += <G as AffineRepr>::ScalarField::from(1u64 + round as u64);
                what_edit = format!("scalar {} shifted", crate::mirror::SCALAR_NAMES[i]);
            }
            let Ok(p2) = m2.to_real() else { continue };
            let v2 = run_verifier::<G>(&prog, &p.commitments, &p2, &VerifyOpts { record: true, ..Default::default() });
            if v2.panic.is_some() {
                continue;
            }
            let items2: Vec<Item> = schedule::<G>(&prog, &p.commitments, &m2).into_iter().skip(prog.pre.len()).collect();
            let what2 = |s: String| -> Value {
                json!({"program": prog.to_json(), "altered_proof": what_edit, "at": s, "verifier_log": v2.log.iter().map(event_short).collect::<Vec<_>>()})
            };
            check_schedule_opt("verifier(altered proof)", &v2.log, v2.main_id, &items2, true, &what2)?;
            col.class("altered-proof-run");
            col.evals_add(1);
        }
    }
    col.class(if shape.closures > 0 { "two-phase" } else { "one-phase" });
    col.class(&format!("k={}", shape.k()));
    if shape.tdata > 0 {
        col.class("user-data");
    }
    if shape.challenges > 0 {
        col.class("closure-challenges");
    }
    if bad {
        col.class("bad-witness");
    }
    if prog.owned {
        col.class("owned-transcript");
    }
    let nt = shape.k() >= 1 || shape.closures > 0;
    if nt {
        col.nontrivial(prog.fingerprint());
    }
    col.sample(nt, || json!({"program": prog.to_json(), "witness": label, "schedule": items.iter().map(|i| format!("{}{}", if matches!(i, Item::Challenge{..}) {"challenge "} else {"absorb "}, i.what())).collect::<Vec<_>>()}));
    Ok(())
}

fn dispatch(sub: &str, bytes: &[u8], col: &mut Collector) -> Result<(), Failure> {
    let curve = Curve::from_name(sub.split('/').nth(1).unwrap_or("")).unwrap_or(Curve::Secq);
    let large = sub.ends_with("/large");
    with_curve!(curve, G => case::<G>(bytes, col, large))
}

thread_local! {
    /// a fixed statement that the next `case` call on this thread checks instead of a generated one
    static FORCED: std::cell::RefCell<Option<crate::program::Program>> = std::cell::RefCell::new(None);
}

/// a statement with `n1` + `n2` gates (beyond what the generator reaches: 16 inner-product rounds)
fn scale_case<G: CurveTag>(n1: usize, n2: usize, col: &mut Collector) -> Result<(), Failure> {
    use crate::program::{Op, Program, Sc, Var};
    use crate::scalars::ScalarSpec;
    let mut ops = vec![Op::Commit { v: ScalarSpec::Small(3), blind: ScalarSpec::Rand(8) }, Op::TData { label: 0, bytes: vec![1, 2, 3] }];
    for i in 0..n1 {
        ops.push(Op::AllocMul { l: Sc::C(ScalarSpec::Small(1 + i as u64)), r: Sc::C(ScalarSpec::Small(3)) });
    }
    ops.push(Op::Constrain { lc: vec![(Var::Com(0), Sc::C(ScalarSpec::One))], err: None, base: None });
    if n2 > 0 {
        let mut body = vec![Op::Challenge { label: 0 }];
        for i in 0..n2 {
            body.push(Op::AllocMul { l: Sc::MulReg(ScalarSpec::Small(1 + i as u64), 0), r: Sc::C(ScalarSpec::Small(2)) });
        }
        ops.push(Op::Closure(body));
    }
    let prog = Program { curve: G::CURVE, tlabel: 0, pre: vec![], ops, owned: false, cap_p: Cap::Exact, cap_v: Cap::Exact, party_cap: 1, seed: 6, pc: 0, gens: 0 };
    FORCED.with(|f| *f.borrow_mut() = Some(prog));
    let bytes = [0x55u8; 64];
    let r = case::<G>(&bytes, col, true);
    FORCED.with(|f| *f.borrow_mut() = None);
    col.class("scale");
    r
}

pub fn replay(sub: &str, bytes: &[u8], col: &mut Collector) -> Result<(), Failure> {
    if sub == "c06/scale" && bytes.len() == 5 {
        let u = |i: usize| (bytes[i] as usize) << 8 | bytes[i + 1] as usize;
        return with_curve!(Curve::ALL[bytes[0] as usize % 3], G => scale_case::<G>(u(1), u(3), col));
    }
    dispatch(sub, bytes, col)
}

pub fn run(tier: &str, seed: u64) -> i32 {
    let mut rep = Report::new("C06", tier, seed);
    rep.rule = "C01 programs (one- and two-phase, user data, closure challenges) and bad-witness runs, observed through the instrumented Merlin: both roles' main-transcript operations must contain the protocol schedule (domain separators, every commitment and the count, every proof element, user data and closure challenges in program order) as an ordered subsequence with the protocol labels and full encodings; no challenge may be squeezed before the items that precede it or beyond the schedule; prover ops == verifier ops; returned transcripts agree and depend on the proof; the verifier's fork for its combination weight comes after the last absorbed element. Non-trivial = k ≥ 1 or a second phase; distinct = program hash".into();
    rep.assumptions = vec![
        "the schedule (harness/src/schedule.rs) is the protocol's message order with the reference revision's labels; extra harmless appends are tolerated".into(),
        "a point's payload may be its uncompressed or compressed canonical encoding".into(),
    ];
    let n = super::scale(tier, 1500, 15000);
    for c in Curve::ALL {
        if !rep.outcome.found.is_empty() {
            break;
        }
        let sub = format!("c06/{}", c.name());
        rep.outcome.merge(replay_corpus("C06", &sub, &|b, col| dispatch(&sub, b, col)));
        rep.outcome.merge(search(&sub, seed, n, 600, &|b, col| dispatch(&sub, b, col)));
        let subl = format!("c06/{}/large", c.name());
        let nl = super::scale(tier, 16, 200);
        rep.outcome.merge(search(&subl, seed, nl, 900, &|b, col| dispatch(&subl, b, col)));
    }
    // statements at scale: 12 rounds in the quick tier, 16 rounds (65 536 padded gates) in the thorough tier
    if rep.outcome.found.is_empty() {
        let items: Vec<(Curve, usize, usize)> = if tier == "thorough" {
            vec![(Curve::ALL[(seed % 3) as usize], 32_800, 0), (Curve::ALL[((seed + 1) % 3) as usize], 3000, 1200), (Curve::ALL[((seed + 2) % 3) as usize], 4097, 0)]
        } else {
            vec![(Curve::ALL[((seed + 1) % 3) as usize], 2500, 0)]
        };
        let mut o = crate::runner::enumerate("c06/scale", &items, &|(c, a, b)| vec![c.index() as u8, (*a >> 8) as u8, *a as u8, (*b >> 8) as u8, *b as u8], &|(c, a, b), col| with_curve!(*c, G => scale_case::<G>(*a, *b, col)));
        o.exhaustive = false;
        rep.outcome.merge(o);
    }
    for (c, f) in [("two-phase", 0.2), ("closure-challenges", 0.1), ("user-data", 0.1), ("bad-witness", 0.1), ("k=2", 0.05), ("owned-transcript", 0.1), ("returned-transcripts-compared", 0.3), ("clone-derived-weight-checked", 0.5), ("altered-proof-run", 0.5)] {
        rep.required_classes.push((c.to_string(), f));
    }
    rep.finish()
}
