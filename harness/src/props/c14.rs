//! C14 — zorro is a prime-order curve whose order is its declared scalar field modulus.
use crate::choices::Choices;
use crate::curves::ZorroG;
use crate::runner::{fp_of, search, Collector, Failure, Found, Report};
use crate::scalars::ScalarSpec;
use ark_bulletproofs::curve::zorro::{Fq, Fr, Parameters};
use ark_ec::short_weierstrass::SWCurveConfig;
use ark_ec::{AffineRepr, CurveConfig, CurveGroup};
use ark_ff::{BigInteger, One, PrimeField, Zero};
use num_bigint::BigUint;
use serde_json::json;

fn big<F: PrimeField>(f: &F) -> BigUint {
    BigUint::from_bytes_le(&f.into_bigint().to_bytes_le())
}
fn big_mod<F: PrimeField>() -> BigUint {
    BigUint::from_bytes_le(&F::MODULUS.to_bytes_le())
}

/// constants parsed from the source text; a constant is only taken when its declaration is
/// literally `… = MontFp!("<decimal>");` (or `#[modulus = "<decimal>"]`) — any other spelling
/// is left uncompared rather than guessed at
#[derive(Debug, Clone, Default)]
struct Parsed {
    q: Option<BigUint>,
    a: Option<BigUint>,
    b: Option<BigUint>,
    gx: Option<BigUint>,
    gy: Option<BigUint>,
}

fn parse_source() -> Parsed {
    let fq = std::fs::read_to_string(format!("{}/src/curve/zorro/fq.rs", crate::paths::repo_root())).unwrap_or_default();
    let g1 = std::fs::read_to_string(format!("{}/src/curve/zorro/g1.rs", crate::paths::repo_root())).unwrap_or_default();
    let decl = |text: &str, key: &str, open: &str, close: &str| -> Option<BigUint> {
        let i = text.find(key)? + key.len();
        let rest = &text[i..];
        let end = rest.find(close)?;
        let stmt: String = rest[..end].chars().filter(|c| !c.is_whitespace()).collect();
        let body = stmt.strip_prefix(open)?;
        let digits = body.strip_suffix('"')?;
        if digits.is_empty() || !digits.bytes().all(|b| b.is_ascii_digit()) {
            return None;
        }
        digits.parse::<BigUint>().ok()
    };
    Parsed {
        q: decl(&fq, "#[modulus", "=\"", "]"),
        a: decl(&g1, "const COEFF_A: Fq", "=MontFp!(\"", ");"),
        b: decl(&g1, "const COEFF_B: Fq", "=MontFp!(\"", ");"),
        gx: decl(&g1, "pub const G_GENERATOR_X: Fq", "=MontFp!(\"", ");"),
        gy: decl(&g1, "pub const G_GENERATOR_Y: Fq", "=MontFp!(\"", ");"),
    }
}

/// Miller–Rabin with the given bases
fn miller_rabin(n: &BigUint, bases: &[BigUint]) -> bool {
    let one = BigUint::from(1u32);
    let two = BigUint::from(2u32);
    if *n < two {
        return false;
    }
    if (n % &two).is_zero() {
        return *n == two;
    }
    let nm1 = n - &one;
    let mut d = nm1.clone();
    let mut s = 0u32;
    while (&d % &two).is_zero() {
        d /= &two;
        s += 1;
    }
    'outer: for a in bases {
        let a = a % n;
        if a.is_zero() || a == one || a == nm1 {
            continue;
        }
        let mut x = a.modpow(&d, n);
        if x == one || x == nm1 {
            continue;
        }
        for _ in 0..s - 1 {
            x = (&x * &x) % n;
            if x == nm1 {
                continue 'outer;
            }
        }
        return false;
    }
    true
}

/// own affine arithmetic on y^2 = x^3 + a x + b over Z_q (None = point at infinity)
type Pt = Option<(BigUint, BigUint)>;

fn add_pts(p: &Pt, r: &Pt, a: &BigUint, q: &BigUint) -> Pt {
    let (Some((x1, y1)), Some((x2, y2))) = (p, r) else { return if p.is_none() { r.clone() } else { p.clone() } };
    let lam = if x1 == x2 {
        if ((y1 + y2) % q).is_zero() {
            return None;
        }
        let num = (BigUint::from(3u32) * x1 * x1 + a) % q;
        let den = (BigUint::from(2u32) * y1) % q;
        (num * den.modinv(q)?) % q
    } else {
        let num = (y2 + q - y1) % q;
        let den = (x2 + q - x1) % q;
        (num * den.modinv(q)?) % q
    };
    let x3 = (&lam * &lam + q + q - x1 - x2) % q;
    let y3 = (&lam * ((x1 + q - &x3) % q) + q - y1) % q;
    Some((x3, y3))
}

fn mul_pt(k: &BigUint, p: &Pt, a: &BigUint, q: &BigUint) -> Pt {
    let mut acc: Pt = None;
    for i in (0..k.bits()).rev() {
        acc = add_pts(&acc, &acc, a, q);
        if k.bit(i) {
            acc = add_pts(&acc, p, a, q);
        }
    }
    acc
}

fn on_curve(x: &BigUint, y: &BigUint, a: &BigUint, b: &BigUint, q: &BigUint) -> bool {
    (y * y) % q == (x * x * x + a * x + b) % q
}

fn static_checks(col: &mut Collector, n_bases: usize) -> Vec<Failure> {
    let mut out = vec![];
    let mut fail = |sig: &str, msg: String| out.push(Failure::new(format!("C14:{}", sig), msg, json!({"check": sig})));
    // exported by the compiled crate
    let q = big_mod::<Fq>();
    let r = big_mod::<Fr>();
    let a = big(&<Parameters as SWCurveConfig>::COEFF_A);
    let b = big(&<Parameters as SWCurveConfig>::COEFF_B);
    let g = <Parameters as SWCurveConfig>::GENERATOR;
    let (gx, gy) = (big(&g.x), big(&g.y));
    {
        let p = parse_source();
        let mut compared = 0;
        for (name, src, comp) in [("q", &p.q, &q), ("a", &p.a, &a), ("b", &p.b, &b), ("generator x", &p.gx, &gx), ("generator y", &p.gy, &gy)] {
            match src {
                None => col.note(&format!("zorro source constant {} is not a plain literal: source/compiled comparison not evaluated", name)),
                Some(v) => {
                    col.eval();
                    compared += 1;
                    if v != comp {
                        fail("source-vs-compiled", format!("the literal {} written in the source ({}) differs from the compiled constant ({})", name, v, comp));
                    }
                }
            }
        }
        if compared > 0 {
            col.class("source-constants-compared");
        }
    }
    // primality (first 12 primes + generated bases)
    let mut bases: Vec<BigUint> = [2u32, 3, 5, 7, 11, 13, 17, 19, 23, 29, 31, 37].iter().map(|x| BigUint::from(*x)).collect();
    for i in 0..n_bases {
        bases.push(big(&ScalarSpec::Rand(4000 + i as u64).to_f::<Fq>()));
    }
    col.evals_add(2 * bases.len() as u64);
    if !miller_rabin(&q, &bases) {
        fail("q-composite", "the zorro base-field modulus is not prime".into());
    }
    if !miller_rabin(&r, &bases) {
        fail("r-composite", "the zorro scalar-field modulus is not prime".into());
    }
    let two255 = BigUint::from(1u32) << 255;
    if r != &two255 - BigUint::from(19u32) {
        fail("r-value", "the declared scalar field modulus is not 2^255 - 19".into());
    }
    // generator on the curve (own big-int arithmetic and compiled predicate)
    if !on_curve(&gx, &gy, &a, &b, &q) || !g.is_on_curve() || g.is_zero() {
        fail("generator-off-curve", "the declared generator does not satisfy y^2 = x^3 + a x + b".into());
    }
    // order: r prime, r*G = O, G != O  =>  ord(G) = r; Hasse: the only multiple of r in
    // [q+1-2√q, q+1+2√q] is r itself  =>  #E = r, cofactor 1
    let gpt: Pt = Some((gx.clone(), gy.clone()));
    if mul_pt(&r, &gpt, &a, &q).is_some() {
        fail("rG-not-identity", "r * G is not the identity (own affine arithmetic)".into());
    }
    if !g.mul_bigint(Fr::MODULUS).into_affine().is_zero() {
        fail("rG-not-identity-compiled", "r * G is not the identity (compiled arithmetic)".into());
    }
    let two_sqrt_q = (BigUint::from(4u32) * &q).sqrt() + BigUint::from(1u32);
    let q1 = &q + BigUint::from(1u32);
    let dist = if q1 > r { &q1 - &r } else { &r - &q1 };
    if dist > two_sqrt_q {
        fail("hasse", "r lies outside the Hasse interval of the base field".into());
    }
    if BigUint::from(2u32) * &two_sqrt_q >= r {
        fail("hasse-width", "the Hasse interval is not narrower than r: the order argument does not apply".into());
    }
    if <Parameters as CurveConfig>::COFACTOR != [1u64] || <Parameters as CurveConfig>::COFACTOR_INV != Fr::one() {
        fail("cofactor", "declared cofactor (or its inverse) is not 1".into());
    }
    // every way the crate declares the two fields names the same moduli: the field types, the
    // curve configuration's associated types, and the exported Montgomery configurations
    {
        use ark_bulletproofs::curve::zorro::{FqConfig, FrConfig};
        use ark_ff::MontConfig;
        let cfg_r = BigUint::from_bytes_le(&<FrConfig as MontConfig<4>>::MODULUS.to_bytes_le());
        let cfg_q = BigUint::from_bytes_le(&<FqConfig as MontConfig<4>>::MODULUS.to_bytes_le());
        let cur_r = big_mod::<<Parameters as CurveConfig>::ScalarField>();
        let cur_q = big_mod::<<Parameters as CurveConfig>::BaseField>();
        col.evals_add(4);
        if cfg_r != r || cur_r != r {
            fail("scalar-field-declarations-disagree", format!("scalar field modulus: Fr = {}, FrConfig = {}, curve configuration = {}", r, cfg_r, cur_r));
        }
        if cfg_q != q || cur_q != q {
            fail("base-field-declarations-disagree", format!("base field modulus: Fq = {}, FqConfig = {}, curve configuration = {}", q, cfg_q, cur_q));
        }
        // the exported configuration's own generator / one are elements of that field
        let one_cfg = BigUint::from_bytes_le(&<FrConfig as MontConfig<4>>::R.to_bytes_le());
        let r_mont = (BigUint::from(1u32) << 256) % &r;
        if one_cfg != r_mont {
            fail("scalar-field-declarations-disagree", "FrConfig's Montgomery constant R is not 2^256 mod r".into());
        }
        col.class("field-declarations-agree");
    }
    // multi-scalar sums of many terms (window widths change with the length) with scalars from the
    // whole range incl. −1, −2 and values just below r
    {
        use ark_ec::VariableBaseMSM;
        for n in [3usize, 40, 700, 5000, 8193, 12_000, 16_384, if n_bases > 64 { 40_000 } else { 2100 }] {
            let pts: Vec<ZorroG> = (0..n).map(|i| g.mul_bigint([2 + i as u64]).into_affine()).collect();
            let scs: Vec<Fr> = (0..n)
                .map(|i| match i % 7 {
                    0 => -Fr::one(),
                    1 => -Fr::from(2 + i as u64),
                    2 => Fr::one(),
                    3 => ScalarSpec::Rand(i as u64).to_f(),
                    4 => Fr::from(i as u64),
                    5 => Fr::zero(),
                    _ => -ScalarSpec::Rand(900 + i as u64).to_f::<Fr>(),
                })
                .collect();
            let got = <ark_bulletproofs::curve::zorro::G1Projective as VariableBaseMSM>::msm(&pts, &scs).map(|x| x.into_affine());
            // Σ sᵢ·(2+i)·G = (Σ sᵢ·(2+i))·G
            let total: Fr = scs.iter().enumerate().map(|(i, s)| *s * Fr::from(2 + i as u64)).sum();
            col.eval();
            if got.ok() != Some(g.mul_bigint(total.into_bigint()).into_affine()) {
                fail("msm", format!("a multi-scalar multiplication of {} terms differs from the multiple it must equal", n));
            }
        }
        col.class("msm:many-terms");
    }
    col.class("order-argument");
    out
}

fn case(bytes: &[u8], col: &mut Collector) -> Result<(), Failure> {
    let mut ch = Choices::new(bytes);
    let q = big_mod::<Fq>();
    let r = big_mod::<Fr>();
    let a_c = <Parameters as SWCurveConfig>::COEFF_A;
    let (a, b) = (big(&a_c), big(&<Parameters as SWCurveConfig>::COEFF_B));
    match ch.weighted(&[70, 30]) {
        // mul_by_a agrees with multiplication by the coefficient
        0 => {
            let spec = ScalarSpec::gen(&mut ch);
            let mut x: Fq = spec.to_f();
            // a third of the elements are chosen by their internal (Montgomery) representation:
            // limb patterns, and residues just below the modulus / just above 2^255
            let mut how = "value";
            if ch.chance(85) {
                use ark_ff::BigInt;
                let q = Fq::MODULUS;
                let pat = ch.u16();
                let mut limbs = [0u64; 4];
                for l in 0..4 {
                    limbs[l] = match (pat >> (2 * l)) & 3 {
                        0 => 0,
                        1 => 1,
                        2 => u64::MAX,
                        _ => (pat as u64 + 3).wrapping_mul(0x9e37_79b9_7f4a_7c15).rotate_left(13 * (l as u32 + 1)),
                    };
                }
                let mut r = BigInt::<4>(limbs);
                match ch.below(4) {
                    0 => {
                        // q - 1 - small
                        r = q;
                        r.sub_with_borrow(&BigInt::<4>::from(1 + ch.byte() as u64));
                    }
                    1 => {
                        // 2^255 + small (inside [2^255, q))
                        r = BigInt::<4>([ch.byte() as u64, 0, 0, 1u64 << 63]);
                    }
                    _ => {}
                }
                while r >= q {
                    r.0[3] >>= 1;
                }
                x = Fq::new_unchecked(r);
                how = "montgomery-residue";
            }
            let got = <Parameters as SWCurveConfig>::mul_by_a(x);
            let want = a_c * x;
            let own = (&a * big(&x)) % &q;
            if got != want || big(&got) != own {
                return Err(Failure::new("C14:mul_by_a", format!("mul_by_a(x) != a * x for x = {} ({})", if how == "value" { spec.short() } else { "element chosen by its Montgomery residue".to_string() }, big(&x)), json!({"x": spec.short(), "chosen_by": how, "x_value": big(&x).to_string()})));
            }
            col.class("mul_by_a");
            if how == "montgomery-residue" {
                col.class("mul_by_a:chosen-residue");
            }
            if matches!(spec, ScalarSpec::Rand(_)) {
                col.nontrivial(fp_of(&("mul_by_a", spec.clone())));
            }
            col.sample(matches!(spec, ScalarSpec::Rand(_)), || json!({"mul_by_a": spec.short(), "x": big(&x).to_string()}));
        }
        // points: random x (both signs) and k*G are on the curve and killed by r
        _ => {
            let from_x = ch.chance(128);
            let p: ZorroG = if from_x {
                let mut x: Fq = ScalarSpec::Rand(ch.u16() as u64).to_f();
                let greatest = ch.chance(128);
                loop {
                    if let Some(p) = ZorroG::get_point_from_x_unchecked(x, greatest) {
                        break p;
                    }
                    x += Fq::one();
                }
            } else {
                let k: Fr = ScalarSpec::gen_nonzero(&mut ch).to_f();
                ZorroG::generator().mul_bigint(k.into_bigint()).into_affine()
            };
            if p.is_zero() {
                return Ok(());
            }
            let (px, py) = (big(&p.x), big(&p.y));
            if !on_curve(&px, &py, &a, &b, &q) {
                return Err(Failure::new("C14:point-off-curve", "a point produced by the compiled curve code does not satisfy the declared equation", json!({"x": px.to_string(), "y": py.to_string()})));
            }
            if !p.mul_bigint(Fr::MODULUS).into_affine().is_zero() {
                return Err(Failure::new("C14:rP-compiled", "r * P is not the identity for a curve point P (compiled arithmetic): the group order is not r", json!({"x": px.to_string(), "y": py.to_string()})));
            }
            // own arithmetic on a subset (it is slow)
            if ch.chance(64) && mul_pt(&r, &Some((px.clone(), py.clone())), &a, &q).is_some() {
                return Err(Failure::new("C14:rP-own", "r * P is not the identity for a curve point P (own affine arithmetic): the group order is not r", json!({"x": px.to_string(), "y": py.to_string()})));
            }
            // multiples by integers beyond r (top bit of the fourth limb set, five limbs): since the
            // group has exactly r elements, k·P depends on k mod r only
            if ch.chance(110) {
                let seed = ch.u16() as u64;
                let nl = if ch.chance(128) { 4 } else { 5 };
                let mut limbs: Vec<u64> = (0..nl).map(|i| (seed + 1 + i as u64).wrapping_mul(0x9e37_79b9_7f4a_7c15).rotate_left(11 * (i as u32 + 1))).collect();
                match ch.below(6) {
                    4 => limbs = { let mut v = vec![u64::MAX; nl]; v[0] -= ch.below(40) as u64; v }, // 2^(64·nl) − 1 − small
                    5 => limbs = { let mut v = vec![0u64; nl]; v[nl - 1] = 1 << ch.below(64); v[0] = ch.below(40) as u64; v }, // 2^k + small
                    0 => limbs = { let mut v = (&r + BigUint::from(1 + ch.byte() as u32)).to_u64_digits(); v.resize(nl.max(v.len()), 0); v }, // r + small
                    1 => limbs = { let mut v = vec![0u64; nl]; v[3] = 1 << 63; v[0] = ch.byte() as u64; v }, // 2^255 + small
                    2 => *limbs.last_mut().unwrap() |= 1 << 63,
                    _ => {}
                }
                let kbig = limbs.iter().rev().fold(BigUint::from(0u32), |acc, l| (acc << 64) + BigUint::from(*l));
                let kred = &kbig % &r;
                let kred_limbs: Vec<u64> = { let mut v = kred.to_u64_digits(); v.resize(4, 0); v };
                let got = p.mul_bigint(&limbs).into_affine();
                let want = p.mul_bigint(&kred_limbs).into_affine();
                let own_differs = ch.chance(40) && {
                    let o = mul_pt(&kbig, &Some((px.clone(), py.clone())), &a, &q);
                    match o {
                        None => !got.is_zero(),
                        Some((ox, oy)) => got.is_zero() || big(&got.x) != ox || big(&got.y) != oy,
                    }
                };
                if got != want || own_differs {
                    return Err(Failure::new(
                        "C14:multiple-depends-on-more-than-k-mod-r",
                        format!("k * P for the {}-limb integer k = {} differs from (k mod r) * P: multiples do not form a group of r elements", nl, kbig),
                        json!({"x": px.to_string(), "y": py.to_string(), "k": kbig.to_string()}),
                    ));
                }
                col.class("point:multiples-beyond-r");
            }
            // sums of multiples through the curve's multi-scalar routine agree with term-by-term
            // multiplication, also for the scalars 0, ±1, ±2 and r − small
            if ch.chance(80) {
                use ark_ec::VariableBaseMSM;
                let n = 1 + ch.below(6);
                let pts: Vec<ZorroG> = (0..n).map(|i| if i == 0 { p } else { ZorroG::generator().mul_bigint([3 + i as u64 + ch.byte() as u64]).into_affine() }).collect();
                let scs: Vec<Fr> = (0..n)
                    .map(|_| match ch.below(8) {
                        0 => Fr::zero(),
                        1 => Fr::one(),
                        2 => -Fr::one(),
                        3 => Fr::from(2u64),
                        4 => -Fr::from(2u64),
                        5 => -Fr::from(1 + ch.byte() as u64),
                        _ => ScalarSpec::gen(&mut ch).to_f(),
                    })
                    .collect();
                let got = <ark_bulletproofs::curve::zorro::G1Projective as VariableBaseMSM>::msm(&pts, &scs).map(|g| g.into_affine());
                let mut want = ark_bulletproofs::curve::zorro::G1Projective::zero();
                for (pt, sc) in pts.iter().zip(scs.iter()) {
                    // own affine arithmetic on one term, compiled single multiplication on the others
                    want += pt.mul_bigint(sc.into_bigint());
                }
                if got.ok() != Some(want.into_affine()) {
                    return Err(Failure::new("C14:msm", "a multi-scalar multiplication differs from the sum of the single multiples (scalars incl. 0, ±1, ±2, −small)".to_string(), json!({"x": px.to_string(), "scalars": scs.iter().map(|s| big(s).to_string()).collect::<Vec<_>>()})));
                }
                // (r − 1)·P = −P through the same routine
                let m1 = <ark_bulletproofs::curve::zorro::G1Projective as VariableBaseMSM>::msm(&[p], &[-Fr::one()]).map(|g| g.into_affine());
                if m1.ok() != Some((-p.into_group()).into_affine()) {
                    return Err(Failure::new("C14:msm", "(r − 1)·P through the multi-scalar routine is not −P: the group order is not r there".to_string(), json!({"x": px.to_string()})));
                }
                col.class("point:msm");
            }
            // what is admitted as a group element must be on the curve: (x, y+1) in either encoding
            // mode is refused by the validating decoders
            if ch.chance(90) {
                use ark_serialize::{CanonicalDeserialize, CanonicalSerialize};
                let bad = ZorroG::new_unchecked(p.x, p.y + Fq::one());
                if !on_curve(&big(&bad.x), &big(&bad.y), &a, &b, &q) {
                    let mut u = vec![];
                    bad.serialize_uncompressed(&mut u).unwrap();
                    let dec = ZorroG::deserialize_uncompressed(&u[..]);
                    if dec.is_ok() {
                        return Err(Failure::new("C14:off-curve-point-admitted", "the validating decoder admits (x, y+1), which does not satisfy the curve equation, as a group element", json!({"x": px.to_string(), "y": big(&bad.y).to_string()})));
                    }
                    if bad.is_on_curve() {
                        return Err(Failure::new("C14:is_on_curve", "is_on_curve() holds for a point that does not satisfy the declared equation", json!({"x": px.to_string(), "y": big(&bad.y).to_string()})));
                    }
                    col.class("point:off-curve-refused");
                }
            }
            col.class(if from_x { "point:from-random-x" } else { "point:k*G" });
            col.nontrivial(fp_of(&("pt", px.to_string())));
            col.sample(true, || json!({"point_x": px.to_string(), "r_times_P": "identity"}));
        }
    }
    Ok(())
}

pub fn replay(_sub: &str, bytes: &[u8], col: &mut Collector) -> Result<(), Failure> {
    case(bytes, col)
}

pub fn run(tier: &str, seed: u64) -> i32 {
    let mut rep = Report::new("C14", tier, seed);
    rep.rule = "constants parsed from src/curve/zorro/{fq,g1}.rs compared with the compiled ones; q and r pass Miller–Rabin (12 small primes + 64 generated bases, own big-int code); r = 2^255 − 19 = the scalar field modulus; generator on the curve (own big-int equation + compiled predicate); r·G = O in own affine arithmetic and compiled arithmetic; Hasse argument: |q+1−r| ≤ 2√q and 4√q < r ⇒ #E = r, cofactor 1; generated field elements x (classes + random): mul_by_a(x) = a·x (compiled product and own big-int product); generated points (random x both signs, k·G): on the declared curve and r·P = O. Non-trivial = random (non-class) element / point; distinct by value".into();
    rep.assumptions = vec![
        "Miller–Rabin error < 4^-76; the Hasse bound".into(),
        "ark-ff / ark-ec arithmetic for the compiled side; num-bigint for the independent side".into(),
    ];
    let mut col = Collector::default();
    for f in static_checks(&mut col, 64) {
        rep.outcome.found.push(Found { failure: f, bytes: None, sub: "c14/static".into() });
    }
    rep.outcome.stats.merge(col);
    let n = super::scale(tier, 20000, 400000);
    if rep.outcome.found.is_empty() {
        rep.outcome.merge(search("c14/generated", seed, n, 24, &|b, col| case(b, col)));
    }
    for (c, f) in [("mul_by_a", 0.3), ("point:from-random-x", 0.05), ("point:k*G", 0.05), ("mul_by_a:chosen-residue", 0.1)] {
        rep.required_classes.push((c.to_string(), f));
    }
    rep.finish()
}
