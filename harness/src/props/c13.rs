//! C13 — Pedersen commitments equal v*B + r*B_blinding and are additively homomorphic.
use crate::choices::Choices;
use crate::curves::{Curve, CurveTag};
use crate::drive::{guarded, pc_gens};
use crate::props::c08::rand_point;
use crate::runner::{fp_of, replay_corpus, search, Collector, Failure, Report};
use crate::scalars::{f_hex, ScalarSpec};
use crate::with_curve;
use ark_bulletproofs::r1cs::Prover;
use ark_bulletproofs::PedersenGens;
use ark_ec::{AffineRepr, CurveGroup, Group};
use ark_ff::{BigInteger, Field, PrimeField};
use ark_std::Zero;
use merlin::Transcript;
use serde_json::json;

/// independent double-and-add over the canonical bits of the scalar
pub fn ref_mul<G: AffineRepr>(p: &G, s: &G::ScalarField) -> G::Group {
    let mut acc = G::Group::zero();
    for b in s.into_bigint().to_bits_be() {
        acc.double_in_place();
        if b {
            acc += p;
        }
    }
    acc
}

pub fn ref_commit<G: AffineRepr>(b: &G, bb: &G, v: &G::ScalarField, r: &G::ScalarField) -> G {
    (ref_mul(b, v) + ref_mul(bb, r)).into_affine()
}

/// a point of small order (None on cofactor-one curves): r · (a curve point outside the subgroup)
pub fn small_order_point<G: CurveTag>() -> Option<G> {
    if G::COFACTOR == 1 {
        return None;
    }
    use ark_serialize::CanonicalDeserialize;
    for y in 2u64..80 {
        let mut b = vec![0u8; G::PT];
        b[..8].copy_from_slice(&y.to_le_bytes());
        if let Ok(q) = G::deserialize_compressed_unchecked(&b[..]) {
            let t = q.mul_bigint(<G::ScalarField as PrimeField>::MODULUS);
            if !ark_std::Zero::is_zero(&t) {
                return Some(t.into_affine());
            }
        }
    }
    None
}

fn case<G: CurveTag>(bytes: &[u8], col: &mut Collector) -> Result<(), Failure> {
    let mut ch = Choices::new(bytes);
    let base_kind = ch.weighted(&[31, 23, 8, 8, 8, 9, 10, 3]);
    let def = pc_gens::<G>();
    // bases that are not in the prime-order subgroup (cofactor curves): "any pair of bases"
    let torsion: Option<G> = small_order_point::<G>();
    let base_kind = if base_kind == 5 && torsion.is_none() { 1 } else { base_kind };
    // dependent bases B_blinding = k·B: with v = ±k·r the two products are equal / opposite
    // points, the exceptional cases of the final addition
    let dep_k: i64 = [2i64, 3, -1, -2, 5, 1][ch.below(6)];
    let pc: PedersenGens<G> = match base_kind {
        6 => {
            let p = if ch.chance(128) { def.B } else { rand_point::<G>(ch.u16() as u64) };
            let kf = if dep_k < 0 { -G::ScalarField::from((-dep_k) as u64) } else { G::ScalarField::from(dep_k as u64) };
            PedersenGens { B: p, B_blinding: ref_mul(&p, &kf).into_affine() }
        }
        5 => {
            let t = torsion.unwrap();
            let k = 1 + ch.below(7) as u64;
            let tk = ref_mul(&t, &G::ScalarField::from(k));
            let p = rand_point::<G>(ch.u16() as u64);
            match ch.below(3) {
                0 => PedersenGens { B: (p.into_group() + tk).into_affine(), B_blinding: def.B_blinding },
                1 => PedersenGens { B: def.B, B_blinding: (p.into_group() + tk).into_affine() },
                _ => PedersenGens { B: (def.B.into_group() + tk).into_affine(), B_blinding: (def.B_blinding.into_group() + t.into_group()).into_affine() },
            }
        }
        0 => def,
        1 => PedersenGens { B: rand_point::<G>(ch.u16() as u64), B_blinding: rand_point::<G>(1 << 20 | ch.u16() as u64) },
        2 => {
            let p = rand_point::<G>(ch.u16() as u64);
            PedersenGens { B: p, B_blinding: p }
        }
        3 => PedersenGens { B: def.B_blinding, B_blinding: def.B },
        7 => PedersenGens { B: G::zero(), B_blinding: if ch.chance(128) { def.B_blinding } else { rand_point::<G>(ch.u16() as u64) } },
        _ => PedersenGens { B: def.B, B_blinding: G::zero() },
    };
    let v1s = ScalarSpec::gen(&mut ch);
    let r1s = ScalarSpec::gen(&mut ch);
    let v2s = ScalarSpec::gen(&mut ch);
    let r2s = ScalarSpec::gen(&mut ch);
    let cs = ScalarSpec::gen(&mut ch);
    let (mut v1, r1, v2, r2, c): (G::ScalarField, G::ScalarField, G::ScalarField, G::ScalarField, G::ScalarField) =
        (v1s.to_f(), r1s.to_f(), v2s.to_f(), r2s.to_f(), cs.to_f());
    let mut matched = "";
    if base_kind == 6 {
        let kf = if dep_k < 0 { -G::ScalarField::from((-dep_k) as u64) } else { G::ScalarField::from(dep_k as u64) };
        match ch.below(3) {
            0 => {
                v1 = kf * r1;
                matched = "v = k*r (equal products)";
            }
            1 => {
                v1 = -(kf * r1);
                matched = "v = -k*r (opposite products)";
            }
            _ => {}
        }
    }
    let bname = ["default", "random pair", "B = B_blinding", "swapped", "B_blinding = identity", "a base with a small-order component", "B_blinding = k*B", "B = identity"][base_kind];
    let what = || json!({"curve": G::CURVE.name(), "bases": bname,
        "matched_opening": matched, "k": dep_k, "v1": v1s.short(), "r1": r1s.short(), "v2": v2s.short(), "r2": r2s.short(), "c": cs.short(), "v1_hex": f_hex(&v1), "r1_hex": f_hex(&r1)});
    let commit = |v: G::ScalarField, r: G::ScalarField| -> Result<G, Failure> {
        guarded(|| pc.commit(v, r)).map_err(|p| Failure::new("C13:panic", format!("PedersenGens::commit panicked: {}", p), what()))
    };
    let c1 = commit(v1, r1)?;
    if c1 != ref_commit(&pc.B, &pc.B_blinding, &v1, &r1) {
        return Err(Failure::new("C13:value", "commit(v, r) != v*B + r*B_blinding (independent double-and-add)", what()));
    }
    let c2 = commit(v2, r2)?;
    let sum = commit(v1 + v2, r1 + r2)?;
    if sum != ref_commit(&pc.B, &pc.B_blinding, &(v1 + v2), &(r1 + r2)) {
        return Err(Failure::new("C13:value", "commit(v1+v2, r1+r2) != (v1+v2)*B + (r1+r2)*B_blinding (independent double-and-add)", what()));
    }
    // the derived laws reduce scalars modulo the group order: they only follow for bases of that order
    let prime_order_bases = base_kind != 5;
    if prime_order_bases && (c1.into_group() + c2.into_group()).into_affine() != sum {
        return Err(Failure::new("C13:homomorphism", "commit(v1,r1) + commit(v2,r2) != commit(v1+v2, r1+r2)", what()));
    }
    if !commit(G::ScalarField::zero(), G::ScalarField::zero())?.is_zero() {
        return Err(Failure::new("C13:zero", "commit(0, 0) is not the identity", what()));
    }
    let scaled = commit(c * v1, c * r1)?;
    if prime_order_bases && ref_mul(&c1, &c).into_affine() != scaled {
        return Err(Failure::new("C13:scaling", "c * commit(v, r) != commit(c*v, c*r)", what()));
    }
    // the prover hands back this same function of its inputs
    let mut t = Transcript::new(b"c13");
    let got = guarded(|| {
        let mut p = Prover::new(&pc, &mut t);
        let (a, _) = p.commit(v1, r1);
        let (b, _) = p.commit(v2, r2);
        (a, b)
    })
    .map_err(|p| Failure::new("C13:prover-panic", format!("Prover::commit panicked: {}", p), what()))?;
    if got.0 != c1 || got.1 != c2 {
        return Err(Failure::new("C13:prover-commit", "Prover::commit(v, r).0 != PedersenGens::commit(v, r)", what()));
    }
    // a run of commitments on one prover: blindings repeat, values move in small steps, go
    // back, jump; every returned commitment must be the same function of its own inputs
    {
        let n = 3 + ch.below(5);
        let base: G::ScalarField = ScalarSpec::gen(&mut ch).to_f();
        let blinds: [G::ScalarField; 2] = [r1, r2];
        let mut seq: Vec<(G::ScalarField, G::ScalarField)> = vec![];
        let mut cur = base;
        for _ in 0..n {
            match ch.below(5) {
                0 => {}
                1 => cur += G::ScalarField::from(1u64 + ch.below(4) as u64),
                2 => cur -= G::ScalarField::from(1u64 + ch.below(4) as u64),
                3 => cur += G::ScalarField::from(2u64).pow([ch.range(60, 70) as u64]),
                _ => cur = ScalarSpec::gen(&mut ch).to_f(),
            }
            seq.push((cur, blinds[if ch.chance(200) { 0 } else { 1 }]));
        }
        // other constraint-system calls between the commitments (gates, constraints) must not matter
        let between: Vec<u8> = (0..n).map(|_| ch.below(6) as u8).collect();
        let mut t2 = Transcript::new(b"c13-seq");
        let outs = guarded(|| {
            use ark_bulletproofs::r1cs::{ConstraintSystem, LinearCombination};
            let mut p = Prover::new(&pc, &mut t2);
            let mut out = vec![];
            for ((v, r), b) in seq.iter().zip(between.iter()) {
                match b {
                    1 => {
                        let _ = p.allocate_multiplier(Some((*v, *r)));
                    }
                    2 => {
                        let _ = p.allocate(Some(*v));
                    }
                    3 => {
                        let one: LinearCombination<G::ScalarField> = LinearCombination::from(*v);
                        let _ = p.multiply(one.clone(), one);
                    }
                    4 => p.constrain(LinearCombination::from(*r) - *r),
                    _ => {}
                }
                out.push(p.commit(*v, *r).0);
            }
            out
        })
        .map_err(|p| Failure::new("C13:prover-panic", format!("Prover::commit panicked: {}", p), what()))?;
        for (i, ((v, r), got)) in seq.iter().zip(outs.iter()).enumerate() {
            if *got != ref_commit(&pc.B, &pc.B_blinding, v, r) {
                return Err(Failure::new(
                    "C13:prover-commit-sequence",
                    format!("commitment #{} of a run of {} Prover::commit calls is not v*B + r*B_blinding of its own inputs", i, n),
                    what(),
                ));
            }
        }
        col.class("prover-commit-run");
        if between.iter().any(|b| (1..=3).contains(b)) {
            col.class("prover-commit-after-gates");
        }
    }
    let wrap = {
        // v1 + v2 wraps around the modulus iff the integer sum is ≥ p
        let mut a = v1.into_bigint();
        let carry = a.add_with_carry(&v2.into_bigint());
        carry || a >= <G::ScalarField as PrimeField>::MODULUS
    };
    col.class(["bases:default", "bases:random", "bases:equal", "bases:swapped", "bases:identity-blinding", "bases:small-order-component", "bases:dependent", "bases:identity-value-base"][base_kind]);
    if !matched.is_empty() {
        col.class("dependent-bases:matched-opening");
    }
    if wrap {
        col.class("wrap-around");
    }
    if v1.into_bigint().num_bits() > 64 {
        col.class("v>2^64");
    }
    if v1.is_zero() || r1.is_zero() {
        col.class("zero-opening");
    }
    let nt = (!v1.is_zero() && !r1.is_zero()) && (base_kind != 0 || wrap);
    if nt {
        col.nontrivial(fp_of(&(G::CURVE, base_kind, f_hex(&v1), f_hex(&r1), f_hex(&v2))));
    }
    col.sample(nt, what);
    Ok(())
}

fn dispatch(sub: &str, bytes: &[u8], col: &mut Collector) -> Result<(), Failure> {
    let curve = Curve::from_name(sub.split('/').nth(1).unwrap_or("")).unwrap_or(Curve::Secq);
    with_curve!(curve, G => case::<G>(bytes, col))
}

pub fn replay(sub: &str, bytes: &[u8], col: &mut Collector) -> Result<(), Failure> {
    dispatch(sub, bytes, col)
}

pub fn run(tier: &str, seed: u64) -> i32 {
    let mut rep = Report::new("C13", tier, seed);
    rep.rule = "(v1, r1, v2, r2, c) from the scalar classes over the full field (0, ±1, 2^k up to 2^250, p−k, (p−1)/2, inverses, 2^64−1, uniformly random) × bases {default, random pair, equal, swapped, identity blinding base}; oracle = independent double-and-add + homomorphism laws + Prover::commit agreement; non-trivial = both openings non-zero and (non-default bases or wrap-around of v1+v2); distinct = (curve, bases, values)".into();
    rep.assumptions = vec!["the reference multiplication shares only point addition/doubling with the code under test".into()];
    let n = super::scale(tier, 5000, 100000);
    for c in Curve::ALL {
        if !rep.outcome.found.is_empty() {
            break;
        }
        let sub = format!("c13/{}", c.name());
        rep.outcome.merge(replay_corpus("C13", &sub, &|b, col| dispatch(&sub, b, col)));
        rep.outcome.merge(search(&sub, seed, n, 48, &|b, col| dispatch(&sub, b, col)));
    }
    for c in ["bases:random", "bases:equal", "wrap-around", "v>2^64", "zero-opening"] {
        rep.required_classes.push((c.to_string(), 0.02));
    }
    rep.finish()
}
