//! History-free reference derivation of the generators (own hashing, labels and chain
//! walking; shares only the curve's point sampler with the code under test).
use crate::curves::CurveTag;
use ark_ec::AffineRepr;
use ark_serialize::CanonicalSerialize;
use digest::Digest;
use rand_chacha::ChaChaRng;
use rand_core::SeedableRng;
use sha3::Sha3_512;
use std::any::Any;
use std::cell::RefCell;
use std::collections::HashMap;

struct Chain<G: AffineRepr> {
    rng: ChaChaRng,
    pts: Vec<G>,
}

thread_local! {
    static CHAINS: RefCell<HashMap<(usize, u8, u32), Box<dyn Any>>> = RefCell::new(HashMap::new());
}

fn chain_seed(kind: u8, party: u32) -> [u8; 32] {
    let mut h = Sha3_512::new();
    Digest::update(&mut h, b"GeneratorsChain");
    Digest::update(&mut h, [kind]);
    Digest::update(&mut h, party.to_le_bytes());
    let d = h.finalize();
    let mut s = [0u8; 32];
    s.copy_from_slice(&d[..32]);
    s
}

/// The first `n` generators of (kind ∈ {b'G', b'H'}, party).
pub fn gens<G: CurveTag>(kind: u8, party: u32, n: usize) -> Vec<G> {
    CHAINS.with(|c| {
        let mut c = c.borrow_mut();
        let e = c
            .entry((G::CURVE.index(), kind, party))
            .or_insert_with(|| Box::new(Chain::<G> { rng: ChaChaRng::from_seed(chain_seed(kind, party)), pts: vec![] }) as Box<dyn Any>);
        let ch = e.downcast_mut::<Chain<G>>().unwrap();
        while ch.pts.len() < n {
            let p = sample::<G>(&mut ch.rng);
            ch.pts.push(p);
        }
        ch.pts[..n].to_vec()
    })
}

/// same derivation without the per-thread cache (for very many parties)
pub fn gens_uncached<G: CurveTag>(kind: u8, party: u32, n: usize) -> Vec<G> {
    let mut rng = ChaChaRng::from_seed(chain_seed(kind, party));
    (0..n).map(|_| sample::<G>(&mut rng)).collect()
}

pub fn sample<G: AffineRepr>(rng: &mut ChaChaRng) -> G {
    use ark_std::UniformRand;
    G::rand(rng)
}

/// Pedersen bases per the documentation: B = the curve's generator, B_blinding = the point
/// sampled from a ChaCha stream seeded with SHA3-512(uncompressed encoding of B)[..32].
pub fn pedersen<G: CurveTag>() -> (G, G) {
    let b = G::generator();
    let mut bytes = vec![];
    b.serialize_uncompressed(&mut bytes).unwrap();
    let mut h = Sha3_512::new();
    Digest::update(&mut h, &bytes);
    let d = h.finalize();
    let mut s = [0u8; 32];
    s.copy_from_slice(&d[..32]);
    let mut rng = ChaChaRng::from_seed(s);
    (b, sample::<G>(&mut rng))
}

pub fn enc<G: AffineRepr>(p: &G) -> Vec<u8> {
    let mut v = vec![];
    p.serialize_compressed(&mut v).unwrap();
    v
}

/// SHA3-512 digest (hex, first 32 bytes) over the compressed encodings of a point list.
pub fn digest_points<G: AffineRepr>(pts: &[G]) -> String {
    let mut h = Sha3_512::new();
    for p in pts {
        Digest::update(&mut h, enc(p));
    }
    hex::encode(&h.finalize()[..32])
}
