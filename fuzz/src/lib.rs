//! Shared by the libFuzzer targets: a small family of fixed statements with honest proofs
//! (built once per process), and the decode/verify/batch drivers with the oracles inside.
use ark_bulletproofs::r1cs::{batch_verify, ConstraintSystem, LinearCombination, Prover, R1CSError, R1CSProof, RandomizableConstraintSystem, RandomizedConstraintSystem, Variable, Verifier};
use ark_bulletproofs::{BulletproofGens, PedersenGens};
use ark_ec::AffineRepr;
use merlin::Transcript;
use rand_chacha::ChaChaRng;
use rand_core::SeedableRng;
use std::sync::OnceLock;

pub type SecqG = ark_secq256k1::Affine;
pub type ZorroG = ark_bulletproofs::curve::zorro::G1Affine;
pub type EdG = ark_curve25519::EdwardsAffine;

/// (first-phase gates, second-phase gates)
pub const SHAPES: [(usize, usize); 6] = [(0, 0), (1, 0), (2, 0), (3, 1), (5, 0), (8, 0)];

fn gadget<F: ark_ff::PrimeField, CS: RandomizableConstraintSystem<F>>(cs: &mut CS, v: Variable<F>, w: Option<F>, n1: usize, n2: usize) -> Result<(), R1CSError> {
    let mut last = None;
    for i in 0..n1 {
        let (l, _, o) = cs.allocate_multiplier(w.map(|w| (w + F::from(i as u64), F::from(3u64 + i as u64))))?;
        last = Some((l, o));
    }
    if let (Some((l, _)), Some(w)) = (last, w) {
        // l_last = w + (n1-1): tie the committed value to the circuit
        cs.constrain(l - v - LinearCombination::from(F::from(n1 as u64 - 1)));
        let _ = w;
    } else if let Some((l, _)) = last {
        cs.constrain(l - v - LinearCombination::from(F::from(n1 as u64 - 1)));
    }
    if n2 > 0 {
        cs.specify_randomized_constraints(move |cs| {
            let z = cs.challenge_scalar(b"fuzz-challenge");
            for j in 0..n2 {
                let (_, _, _) = cs.multiply(v + z, LinearCombination::from(F::from(2u64 + j as u64)));
            }
            Ok(())
        })?;
    }
    Ok(())
}

pub struct Fixture<G: AffineRepr> {
    pub shape: (usize, usize),
    pub commitment: G,
    pub proof: R1CSProof<G>,
    pub bytes: Vec<u8>,
}

pub struct World<G: AffineRepr> {
    pub pc: PedersenGens<G>,
    pub bp: BulletproofGens<G>,
    pub fixtures: Vec<Fixture<G>>,
}

pub fn build_world<G: AffineRepr>() -> World<G> {
    let pc = PedersenGens::<G>::default();
    let bp = BulletproofGens::<G>::new(16, 1);
    let mut fixtures = vec![];
    for (i, shape) in SHAPES.iter().enumerate() {
        let mut rng = ChaChaRng::from_seed([i as u8 + 1; 32]);
        let mut t = Transcript::new(b"verif-fuzz");
        let mut p = Prover::new(&pc, &mut t);
        let w = G::ScalarField::from(1000u64 + i as u64);
        let (c, v) = p.commit(w, G::ScalarField::from(77u64 + i as u64));
        gadget(&mut p, v, Some(w), shape.0, shape.1).expect("gadget");
        let proof = p.prove(&mut rng, &bp).expect("honest proof");
        let bytes = proof.to_bytes().expect("bytes");
        fixtures.push(Fixture { shape: *shape, commitment: c, proof, bytes });
    }
    World { pc, bp, fixtures }
}

pub fn verifier<'a, G: AffineRepr>(fx: &Fixture<G>, t: &'a mut Transcript) -> Verifier<G, &'a mut Transcript> {
    let mut v = Verifier::<G, &mut Transcript>::new(t);
    let var = v.commit(fx.commitment);
    gadget::<G::ScalarField, _>(&mut v, var, None, fx.shape.0, fx.shape.1).expect("gadget");
    v
}

pub fn verify<G: AffineRepr>(w: &World<G>, fx: &Fixture<G>, proof: &R1CSProof<G>) -> bool {
    let mut t = Transcript::new(b"verif-fuzz");
    verifier(fx, &mut t).verify(proof, &w.pc, &w.bp).is_ok()
}

pub fn batch<G: AffineRepr>(w: &World<G>, fx: &Fixture<G>, proof: &R1CSProof<G>, beside_valid: bool) -> bool {
    let mut t1 = Transcript::new(b"verif-fuzz");
    let mut t2 = Transcript::new(b"verif-fuzz");
    let mut rng = ChaChaRng::from_seed([9u8; 32]);
    let mut inst = vec![(verifier(fx, &mut t1), proof)];
    if beside_valid {
        inst.push((verifier(fx, &mut t2), &fx.proof));
    }
    batch_verify(&mut rng, inst, &w.pc, &w.bp).is_ok()
}

macro_rules! world {
    ($name:ident, $G:ty) => {
        pub fn $name() -> &'static World<$G> {
            static W: OnceLock<World<$G>> = OnceLock::new();
            W.get_or_init(build_world::<$G>)
        }
    };
}
world!(secq, SecqG);
world!(zorro, ZorroG);
world!(ed, EdG);

/// dispatch on the first input byte
#[macro_export]
macro_rules! with_world {
    ($sel:expr, $w:ident => $body:expr) => {
        match $sel % 3 {
            0 => {
                let $w = $crate::secq();
                $body
            }
            1 => {
                let $w = $crate::zorro();
                $body
            }
            _ => {
                let $w = $crate::ed();
                $body
            }
        }
    };
}

/// C08 oracle: decode, and if it decodes verify singly and in batches; returns whether it decoded.
/// Any panic aborts the fuzzing process: that is the detection.
pub fn c08<G: AffineRepr>(w: &World<G>, shape: u8, data: &[u8]) -> bool {
    let fx = &w.fixtures[shape as usize % w.fixtures.len()];
    let Ok(proof) = R1CSProof::<G>::from_bytes(data) else { return false };
    let _ = verify(w, fx, &proof);
    let _ = batch(w, fx, &proof, false);
    let _ = batch(w, fx, &proof, true);
    true
}

/// C04 oracle: a mutated encoding of a valid proof is rejected at decoding, rejected at
/// verification, or decodes to the identical object. Returns a class for statistics.
pub fn c04<G: AffineRepr>(w: &World<G>, shape: u8, script: &[u8]) -> u8 {
    let fx = &w.fixtures[shape as usize % w.fixtures.len()];
    let mut m = fx.bytes.clone();
    // script: triples (offset_hi, offset_lo, xor-mask); a zero mask truncates / extends instead
    for c in script.chunks(3) {
        if c.len() < 3 {
            break;
        }
        let off = ((c[0] as usize) << 8 | c[1] as usize) % (m.len() + 1);
        if c[2] == 0 {
            if c[0] & 1 == 0 {
                m.truncate(off);
            } else {
                m.push(c[1]);
            }
        } else if off < m.len() {
            m[off] ^= c[2];
        }
    }
    if m == fx.bytes {
        return 0;
    }
    let Ok(p) = R1CSProof::<G>::from_bytes(&m) else { return 1 };
    if p.to_bytes().ok().as_deref() == Some(&fx.bytes[..]) {
        return 2;
    }
    if verify(w, fx, &p) {
        panic!("C04 violation: an altered proof that decodes to a different object verifies");
    }
    if batch(w, fx, &p, true) {
        panic!("C04/C07 violation: an altered proof is accepted inside a batch");
    }
    3
}

/// C11 oracle: whatever decodes re-encodes to a canonical form that is a fixed point of
/// decode/encode, obeys the size law, and gets the same verdict.
pub fn c11<G: AffineRepr>(w: &World<G>, shape: u8, data: &[u8], pt: usize, sc: usize) -> bool {
    let fx = &w.fixtures[shape as usize % w.fixtures.len()];
    let Ok(p) = R1CSProof::<G>::from_bytes(data) else { return false };
    let e = p.to_bytes().expect("a decoded proof encodes");
    assert_eq!(e, p.to_bytes().unwrap(), "C11 violation: encoding is not deterministic");
    let p2 = R1CSProof::<G>::from_bytes(&e).expect("C11 violation: the encoding of a decoded proof does not decode");
    assert_eq!(p2.to_bytes().unwrap(), e, "C11 violation: decode/encode is not a fixed point");
    // size law: 11 points + 5 scalars + two counts + |L| + |R| points; the counts are in the header
    let l = u64::from_le_bytes(e[11 * pt + 3 * sc..11 * pt + 3 * sc + 8].try_into().unwrap()) as usize;
    let r_off = 11 * pt + 3 * sc + 8 + l * pt;
    let r = u64::from_le_bytes(e[r_off..r_off + 8].try_into().unwrap()) as usize;
    assert_eq!(e.len(), 11 * pt + 5 * sc + 16 + (l + r) * pt, "C11 violation: size law");
    // canonical bytes are a prefix-free re-encoding: every strict prefix of them fails
    if !e.is_empty() {
        let cut = (data.first().copied().unwrap_or(0) as usize * e.len()) >> 8;
        assert!(R1CSProof::<G>::from_bytes(&e[..cut]).is_err(), "C11 violation: a strict prefix decodes");
    }
    assert_eq!(verify(w, fx, &p), verify(w, fx, &p2), "C11 violation: verdict changes across a round-trip");
    true
}

/// When VERIF_EMIT_CORPUS=<dir> is set, write seed inputs (valid proofs of every shape and
/// curve, in the target's input format) into <dir> once per process.
pub fn init(kind: &str) {
    static ONCE: std::sync::Once = std::sync::Once::new();
    ONCE.call_once(|| {
        let Ok(dir) = std::env::var("VERIF_EMIT_CORPUS") else { return };
        let _ = std::fs::create_dir_all(&dir);
        fn emit<G: AffineRepr>(dir: &str, kind: &str, c: u8, w: &World<G>) {
            for (i, fx) in w.fixtures.iter().enumerate() {
                let mut v = vec![c, i as u8];
                if kind == "c04" {
                    v.extend_from_slice(&[0, 5, 1, 1, 40, 0x80]);
                } else {
                    v.extend_from_slice(&fx.bytes);
                }
                let _ = std::fs::write(format!("{}/seed-{}-{}", dir, c, i), &v);
            }
        }
        emit(&dir, kind, 0, secq());
        emit(&dir, kind, 1, zorro());
        emit(&dir, kind, 2, ed());
    });
}
