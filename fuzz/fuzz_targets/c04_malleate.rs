#![no_main]
use libfuzzer_sys::fuzz_target;
use verif_fuzz::with_world;

// input: [curve][shape][mutation script: (offset_hi, offset_lo, mask)*]
fuzz_target!(|data: &[u8]| {
    verif_fuzz::init("c04");
    if data.len() < 2 {
        return;
    }
    with_world!(data[0], w => { verif_fuzz::c04(w, data[1], &data[2..]); });
});
