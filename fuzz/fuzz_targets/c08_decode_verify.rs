#![no_main]
use libfuzzer_sys::fuzz_target;
use verif_fuzz::with_world;

// input: [curve][shape][proof bytes...]
fuzz_target!(|data: &[u8]| {
    verif_fuzz::init("c08");
    if data.len() < 2 {
        return;
    }
    with_world!(data[0], w => { verif_fuzz::c08(w, data[1], &data[2..]); });
});
