#![no_main]
use libfuzzer_sys::fuzz_target;

// input: [curve][shape][proof bytes...]
fuzz_target!(|data: &[u8]| {
    verif_fuzz::init("c11");
    if data.len() < 2 {
        return;
    }
    match data[0] % 3 {
        0 => { verif_fuzz::c11(verif_fuzz::secq(), data[1], &data[2..], 33, 32); }
        1 => { verif_fuzz::c11(verif_fuzz::zorro(), data[1], &data[2..], 33, 32); }
        _ => { verif_fuzz::c11(verif_fuzz::ed(), data[1], &data[2..], 32, 32); }
    }
});
