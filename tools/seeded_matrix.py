#!/usr/bin/env python3
"""Run every seeded change (seeded/<ID>/patch.diff) against every registered quick check.
Usable on scratch copies: honours VERIF_ROOT / VERIF_REPO (see tools/mutants/matrix_alt.sh)."""
import subprocess, os, json, sys, time, glob
ROOT=os.environ.get('VERIF_ROOT','/verif'); REPO=os.environ.get('VERIF_REPO','/repo')
IDS=[f'C{i:02d}' for i in range(1,19)]
def sh(cmd, **kw): return subprocess.run(cmd, shell=True, capture_output=True, text=True, **kw)
res={}
for d in sorted(glob.glob(f'{ROOT}/seeded/C*')):
    sid=os.path.basename(d); patch=f'{d}/patch.diff'
    if sys.argv[1:] and sid not in sys.argv[1:]: continue
    if sh(f'git apply {patch}', cwd=REPO).returncode!=0: res[sid]='APPLY-FAIL'; continue
    row={}
    try:
        for c in ([sid.split('-')[0]] if os.environ.get('MATRIX_TARGET_ONLY') else IDS):
            t0=time.time(); o=sh(f'{ROOT}/check {c} quick')
            msg=[l for l in (o.stdout+o.stderr).splitlines() if l.startswith(f'[{c}] ') and 'tier=' not in l]
            row[c]={'exit':o.returncode,'seconds':round(time.time()-t0,1),'message':(msg[0][:200] if msg else '')}
    finally:
        sh(f'git apply -R {patch}', cwd=REPO)
    res[sid]=row
    print(sid, [c for c,v in row.items() if v['exit']==1], [c for c,v in row.items() if v['exit'] not in (0,1)], flush=True)
json.dump(res, open(f'{ROOT}/seeded/' + ('target_matrix.json' if os.environ.get('MATRIX_TARGET_ONLY') else 'cross_matrix.json'),'w'), indent=1)
lines=['# Seeded changes × checks (quick tier, seed 0)','','Rows: independently written property-breaking changes (seeded/<ID>/); columns: checks that reported a VIOLATION (exit 1). Produced by tools/seeded_matrix.py.','','| seeded change (target property) | detected by | target check message |','|---|---|---|']
for sid,row in res.items():
    if not isinstance(row,dict): lines.append(f'| {sid} | patch does not apply | |'); continue
    det=[c for c,v in row.items() if v['exit']==1]
    lines.append(f"| {sid} | {', '.join(det) or 'none'} | {row.get(sid.split('-')[0],{}).get('message','').replace('|','/')} |")
open(f'{ROOT}/seeded/' + ('RESULTS_target.md' if os.environ.get('MATRIX_TARGET_ONLY') else 'RESULTS.md'),'w').write('\n'.join(lines)+'\n')
