//! Emits known-answer vectors from the pristine merlin crate: a scripted sequence of
//! operations with every output. Format (one op per line):
//!   new <label-hex> | append <label-hex> <msg-hex> | u64 <label-hex> <n> | challenge <label-hex> <len> -> <out-hex>
//!   clone | back | rng <n_rekeys> (<label-hex> <witness-hex>)* <external-seed-byte> | fill <len> -> <out-hex>
use merlin::Transcript;
use rand_chacha::ChaChaRng;
use rand_core::{RngCore, SeedableRng};

fn hx<T: AsRef<[u8]>>(b: T) -> String {
    if b.as_ref().is_empty() { "-".into() } else { hex::encode(b) }
}

fn leak(b: &[u8]) -> &'static [u8] {
    Box::leak(b.to_vec().into_boxed_slice())
}

fn main() {
    let mut seed = 0x1234_5678_9abc_def0u64;
    let mut next = move || {
        seed ^= seed << 13;
        seed ^= seed >> 7;
        seed ^= seed << 17;
        seed
    };
    let labels: [&[u8]; 6] = [b"dom-sep", b"V", b"A_I1", b"u", b"x", b""];
    for case in 0..40 {
        let l = labels[(next() % 6) as usize];
        println!("new {}", hx(l));
        let mut t = Transcript::new(leak(l));
        let mut stack: Vec<Transcript> = vec![];
        let nops = 5 + next() % 25;
        for _ in 0..nops {
            match next() % 7 {
                0 | 1 => {
                    let l = labels[(next() % 6) as usize];
                    let n = (next() % 70) as usize;
                    let msg: Vec<u8> = (0..n).map(|_| next() as u8).collect();
                    t.append_message(leak(l), &msg);
                    println!("append {} {}", hx(l), hx(&msg));
                }
                2 => {
                    let l = labels[(next() % 6) as usize];
                    let v = next();
                    t.append_u64(leak(l), v);
                    println!("u64 {} {}", hx(l), v);
                }
                3 => {
                    let l = labels[(next() % 6) as usize];
                    let n = [32usize, 64, 1, 16][(next() % 4) as usize];
                    let mut out = vec![0u8; n];
                    t.challenge_bytes(leak(l), &mut out);
                    println!("challenge {} {} -> {}", hx(l), n, hx(&out));
                }
                4 => {
                    stack.push(t.clone());
                    println!("clone");
                }
                5 => {
                    if let Some(prev) = stack.pop() {
                        // continue on the older copy
                        t = prev;
                        println!("back");
                    }
                }
                _ => {
                    let nrek = (next() % 3) as usize;
                    let mut b = t.build_rng();
                    let mut line = format!("rng {}", nrek);
                    for _ in 0..nrek {
                        let n = (next() % 40) as usize;
                        let w: Vec<u8> = (0..n).map(|_| next() as u8).collect();
                        b = b.rekey_with_witness_bytes(b"v_blinding", &w);
                        line += &format!(" {} {}", hx(b"v_blinding"), hx(&w));
                    }
                    let sb = next() as u8;
                    let mut ext = ChaChaRng::from_seed([sb; 32]);
                    let mut rng = b.finalize(&mut ext);
                    println!("{} {}", line, sb);
                    for _ in 0..(1 + next() % 4) {
                        let n = [8usize, 8, 32, 5][(next() % 4) as usize];
                        let mut out = vec![0u8; n];
                        rng.fill_bytes(&mut out);
                        println!("fill {} -> {}", n, hx(&out));
                    }
                }
            }
        }
        let _ = case;
    }
}
