#!/bin/bash
# tools/seeded_validate.sh <ID> <agent-worktree> [checks...]   (SEED_OUT=<dir> overrides <agent-worktree>/_out)
# 1. in a fresh scratch worktree: the change compiles, the repository's 78 tests pass with it, the demonstration
#    fails with it and passes without it;  2. apply it to /repo, run the quick checks, undo it straight afterwards;
# 3. keep it as /verif/seeded/<ID>/ (patch.diff, seed_demo.rs, NOTES.md, meta.json).
set -u
ID="$1"; AWT="$2"; shift 2
CHECKS=("$@"); [ ${#CHECKS[@]} -eq 0 ] && CHECKS=(C01 C02 C03 C04 C05 C06 C07 C08 C09 C10 C11 C12 C13 C14 C15 C16 C17 C18)
OUT=${SEED_OUT:-$AWT/_out}; [ -f $OUT/patch.diff ] && [ -f $OUT/seed_demo.rs ] || { echo "missing deliverables in $OUT"; exit 2; }
WT=/tmp/sv_$ID; TD=/tmp/sv_target
git -C /repo worktree remove --force $WT 2>/dev/null
git -C /repo worktree add -q --detach $WT HEAD || exit 2
cp /repo/Cargo.lock $WT/
fail() { echo "SEED-REJECTED $ID: $1"; git -C /repo worktree remove --force $WT; exit 1; }
(cd $WT && git apply $OUT/patch.diff) || fail "patch does not apply to HEAD"
git -C $WT diff --stat | tail -1
if git -C $WT diff --name-only | grep -qv '^src/'; then fail "patch touches files outside src/"; fi
suite=$(cd $WT && CARGO_TARGET_DIR=$TD cargo test --workspace --no-fail-fast --offline 2>&1 | grep -E "^test result" | awk '{p+=$4; f+=$6} END {print p" "f}')
[ "$suite" = "78 0" ] || fail "existing suite with the change: $suite (passed failed)"
cp $OUT/seed_demo.rs $WT/tests/seed_demo.rs
with=$(cd $WT && CARGO_TARGET_DIR=$TD cargo test --offline ${DEMO_FEATURES:-} --test seed_demo 2>&1 | grep -E "^test result" | tail -1)
echo "$with" | grep -q "FAILED" || fail "demo does not fail with the change: $with"
(cd $WT && git apply -R $OUT/patch.diff) || fail "cannot revert"
without=$(cd $WT && CARGO_TARGET_DIR=$TD cargo test --offline ${DEMO_FEATURES:-} --test seed_demo 2>&1 | grep -E "^test result" | tail -1)
echo "$without" | grep -q "test result: ok" || fail "demo does not pass without the change: $without"
git -C /repo worktree remove --force $WT
echo "confirmed: suite 78/0 with change; demo with change: $with ; without: $without"
# 2. our checks
git -C /repo diff --quiet || { echo "/repo has local changes"; exit 2; }
trap 'git -C /repo checkout -- .' EXIT
git -C /repo apply $OUT/patch.diff || exit 2
detected=(); lines=()
for c in "${CHECKS[@]}"; do
  o=$(/verif/check $c quick 2>&1); rc=$?
  msg=$(echo "$o" | grep -E "^\[$c\] " | grep -v "tier=" | head -1 | cut -c1-220)
  echo "  check $c exit=$rc $msg"
  lines+=("$c: exit $rc ${msg}")
  [ $rc -eq 1 ] && detected+=("$c")
done
git -C /repo checkout -- . ; trap - EXIT
D=/verif/seeded/$ID; mkdir -p $D
cp $OUT/patch.diff $OUT/seed_demo.rs $D/; cp $OUT/NOTES.md $D/NOTES.md 2>/dev/null
python3 - "$ID" "$D" "$with" "$without" "${detected[*]:-}" "${lines[@]}" <<'PY'
import json, sys
pid, d, w, wo, det = sys.argv[1:6]; lines = sys.argv[6:]
notes = open(d + '/NOTES.md').read() if __import__('os').path.exists(d + '/NOTES.md') else ''
meta = {"property": pid, "written_by": "independent sub-agent given only the property text and a scratch worktree",
        "needs_to_manifest": "see NOTES.md (trigger condition section)",
        "confirmed": {"existing_suite_with_change": "78 passed / 0 failed", "demo_with_change": w, "demo_without_change": wo,
                      "how": "tools/seeded_validate.sh: fresh scratch worktree of /repo HEAD, cargo test --workspace --offline, cargo test --test seed_demo with and without the patch"},
        "checks_run_quick_tier": lines, "detected_by": det.split()}
json.dump(meta, open(d + '/meta.json', 'w'), indent=1)
print("detected by:", det or "NONE")
PY
