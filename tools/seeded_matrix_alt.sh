#!/bin/bash
# vp run --with-repo -- bash tools/seeded_matrix_alt.sh   (scratch copies only; nothing under /verif or /repo is touched)
set -u
ROOT=$(pwd); REPO="${VP_RUN_REPO:?needs --with-repo}"
sed -i "s#path = \"/repo\"#path = \"$REPO\"#" $ROOT/harness/Cargo.toml
export VERIF_ROOT=$ROOT VERIF_REPO=$REPO CARGO_NET_OFFLINE=true
(cd $ROOT/harness && cargo build --release 2>&1 | tail -1)
python3 $ROOT/tools/seeded_matrix.py "$@"
