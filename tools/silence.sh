#!/bin/bash
# tools/silence.sh [seeds...]   run every registered quick check on the (unchanged) tree under several seeds,
# each from a fresh process; any non-zero exit or VIOLATION line is reported. Results -> tools/SILENCE.txt
seeds=("$@"); [ ${#seeds[@]} -eq 0 ] && seeds=(1 2 3 4 5)
OUT=/verif/tools/SILENCE.txt; : > $OUT
git -C /repo diff --quiet || { echo "/repo has local changes"; exit 2; }
bad=0
for s in "${seeds[@]}"; do
  for id in C01 C02 C03 C04 C05 C06 C07 C08 C09 C10 C11 C12 C13 C14 C15 C16 C17 C18; do
    o=$(VERIF_SEED=$s /verif/check $id quick 2>&1); rc=$?
    line=$(echo "$o" | grep -E "^\[$id\] tier" | tail -1)
    echo "seed=$s $id exit=$rc $line" >> $OUT
    if [ $rc -ne 0 ] || echo "$o" | grep -q "^VIOLATION"; then bad=$((bad+1)); echo "$o" | grep -E "VIOLATION|MACHINERY|INCONCLUSIVE" | head -3 >> $OUT; fi
  done
done
echo "non-silent runs: $bad" >> $OUT
tail -1 $OUT
