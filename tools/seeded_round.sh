#!/bin/bash
# tools/seeded_round.sh <round> <ID>...   validates the A and B deliverables of the round's seeders
# (/tmp/seed<round>_<ID>/_out/{a,b}) against the property's own quick check; keeps them as seeded/<ID>-r<round>{a,b}
cd /verif
R="$1"; shift
for id in "$@"; do
  for ab in a b; do
    out=/tmp/seed${R}_$id/_out/$ab
    [ -f $out/patch.diff ] || { echo "## $id-r$R$ab: no patch"; continue; }
    feat=""
    grep -q "verif_hooks" $out/seed_demo.rs && feat="--features verif-hooks"
    echo "## $id-r$R$ab"
    DEMO_FEATURES="$feat" SEED_OUT=$out tools/seeded_validate.sh $id-r$R$ab /tmp/seed${R}_$id $id 2>&1 | grep -v conda | tail -5
  done
done
