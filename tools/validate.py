#!/usr/bin/env python3-vt
import json, jsonschema, glob, sys
ms=json.load(open('/root/.vp/MANIFEST.schema.json')); m=json.load(open('/verif/MANIFEST.json')); jsonschema.validate(m, ms)
es=json.load(open('/root/.vp/EVIDENCE.schema.json'))
bad=0
for c in m['checks']:
    f=c['evidence_file']
    try:
        e=json.load(open(f)); jsonschema.validate(e, es)
        assert e['property_id']==c['property_id'] and e['level']==c['level_claimed']['category']
        print('valid', f, e['tier'], e['coverage']['evaluations'], e['coverage']['distinct_nontrivial'])
    except Exception as x:
        bad+=1; print('INVALID', f, str(x)[:200])
ids=[json.loads(l)['id'] for l in open('/verif/properties.jsonl')]
claimed={c['property_id'] for c in m['checks']}; na={x['property_id'] for x in m.get('not_applicable',[])}
assert claimed|na==set(ids) and not (claimed&na), (claimed, na)
sys.exit(1 if bad else 0)
