#!/bin/bash
# vp run --with-repo -- bash tools/thorough_all_alt.sh [IDs...]   every thorough tier once, on scratch copies
set -u
ROOT=$(pwd); REPO="${VP_RUN_REPO:?needs --with-repo}"
sed -i "s#path = \"/repo\"#path = \"$REPO\"#" $ROOT/harness/Cargo.toml $ROOT/fuzz/Cargo.toml
export VERIF_ROOT=$ROOT VERIF_REPO=$REPO CARGO_NET_OFFLINE=true VERIF_FUZZ_SECS="${VERIF_FUZZ_SECS:-120}"
ids=("$@"); [ ${#ids[@]} -eq 0 ] && ids=(C01 C02 C03 C04 C05 C06 C07 C08 C09 C10 C11 C12 C13 C14 C15 C16 C17 C18)
for id in "${ids[@]}"; do
  t0=$(date +%s); o=$($ROOT/check $id thorough 2>&1); rc=$?; t1=$(date +%s)
  echo "== $id thorough exit=$rc $((t1-t0))s"; echo "$o" | grep -E "^\[$id\]|VIOLATION|MACHINERY|INCONCLUSIVE|KNOWN" | tail -4
done
