#!/usr/bin/env python3
"""Regenerates /verif/MANIFEST.json from the table below (single source of truth)."""
import json
PROPS=[json.loads(l)['id'] for l in open('/verif/properties.jsonl')]
# id -> (technique, level text, level note, design section)
C = {
 'C01': ("property-based testing: proptest over choice bytes decoded into circuit programs; oracle = independent circuit model (model says satisfied => prove Ok and verify Ok)",
         "Generated-input search with shrinking over circuit programs (call sequences, both phases, scalar classes over the full field, three curves, independent capacities). Every accepted case was judged satisfied by an independent interpreter, so a reject is a completeness failure. Exploration, not proof: it samples thousands of shapes the suite never builds (single allocation path, zero gates, mixed phases, threshold capacities).",
         "Trusted: the circuit model (harness/src/model.rs), arkworks curve arithmetic, the vendored instrumented merlin (bit-compatible, KAT-checked).", "3/C01"),
 'C02': ("property-based testing: generated programs with injected violations (linear, constant-only, committed-only, gate via guarded hook, cancelling pairs); oracle = model lists a violated row/gate => verify Err",
         "Generated bad witnesses pushed through the unmodified prover; the model decides which rows/gates the final assignment violates; any acceptance is a soundness failure. Covers enumerated violation classes incl. cancelling pairs that survive a degenerate z^q / y^n weighting.",
         "Trusted: circuit model; false-accept probability 2^-240 ignored; hook verif_overwrite_gate only overwrites the prover's assignment.", "3/C02"),
 'C08': ("bounded exhaustive grid over (|L|,|R|, gates, fill, scalars, mode) + proptest over structurally arbitrary proof objects, raw and mutated byte strings; oracle = no panic (catch_unwind), Ok/Err only, decode heap <= 64*len+64KiB",
         "Robustness exploration: exhaustive length grid and generated hostile inputs against decode / verify / batch_verify with a panic and heap oracle.",
         "Trusted: catch_unwind sees every panic in the panic=unwind harness build (debug assertions and overflow checks on); counting global allocator.", "3/C08"),
 'C11': ("property-based testing: round-trip / size-law / verdict-equality over proofs of generated programs; exhaustive strict-prefix enumeration; crafted single-field invalid encodings at every scalar and point slot",
         "Round-trip and rejection checks over generated proofs (k=0..8), exhaustive prefixes for a subset, and crafted invalid encodings (non-canonical scalars, off-curve, invalid flags, small-order offsets) at every position.",
         "Trusted: the mirror layout (11 points, 3 scalars, two length-prefixed lists, 2 scalars); candidates are confirmed invalid independently before asking the proof decoder.", "3/C11"),
 'C12': ("model-based property testing: histories of new/increase_capacity/serialization round-trips compared with a history-free reference derivation; distinctness, subgroup, pinned digests, cross-process digest",
         "Stateful generated histories against a reference table; all (n,m) views incl. n=0/m=0; pinned digests from the reference revision.",
         "Trusted: the curve's point sampler (shared with the code under test); SHA3/ChaCha crates.", "3/C12"),
 'C13': ("property-based testing: (v,r) over the full field and arbitrary bases against an independent double-and-add reference and the homomorphism laws",
         "Algebraic laws and a differential reference over generated openings and bases.", "Trusted: point addition/doubling of arkworks.", "3/C13"),
 'C15': ("property-based testing: generated expression trees over every operator impl; oracle = own tree evaluation; accept at the reference value, reject at value+delta",
         "Every operator impl is exercised by generated trees whose meaning is decided by an independent evaluator through the prove/verify verdict.",
         "Trusted: own evaluator; C01/C02 behaviour of the proof system on one-constraint circuits.", "3/C15"),
 'C16': ("model-based property testing: generated call sequences; call-by-call handle equality prover = verifier = allocation state machine; missing-assignment error",
         "Stateful comparison of returned Variables and gate counts after every call, both phases.", "Trusted: allocation model written from the trait docs.", "3/C16"),
 'C17': ("exhaustive enumeration of (n1, n2, prover capacity, verifier capacity, mode) grid; oracle = threshold predicate and capacity-independence of proof bytes and verdict",
         "The whole finite grid the property names is enumerated on all three curves.", "Trusted: threshold formula from the property text.", "3/C17"),
}
NA_REASON = "check under construction in this session (design in DESIGN.md section 3); not yet registered"
checks=[]
for p in PROPS:
    if p in C:
        t,text,note,ref=C[p]
        checks.append({"property_id":p,"quick_cmd":f"./check {p} quick","thorough_cmd":f"./check {p} thorough",
          "evidence_file":f"/verif/evidence/{p}.json","replay_cmd_template":f"./check {p} --replay {{path}}",
          "engine":"verif-harness","level_claimed":{"category":"exploration","text":text,"design_ref":"DESIGN.md section "+ref},
          "level_note":note,"technique":t})
m={"version":1,
 "setup_cmd":"cd /verif/harness && CARGO_NET_OFFLINE=true cargo build --release",
 "hooks":{"guard":"cargo feature `verif-hooks` of ark-bulletproofs","enable":"/verif/harness/Cargo.toml depends on /repo by path with features=[\"verif-hooks\"]; every ./check rebuilds the harness (and thus /repo's working tree) first","baseline_off_cmd":"cd /repo && cargo test --workspace --no-fail-fast --offline","source_commits":["dead9de"],"add_only":True},
 "engines":[{"name":"verif-harness","path":"/verif/harness","serves_properties":sorted(C.keys()),"kind_free_text":"Rust binary: proptest 1.11 TestRunner over choice bytes (16 workers, fixed seeds from VERIF_SEED), exhaustive enumerators, independent circuit model, instrumented merlin, mirror of the proof layout"}],
 "checks":checks,
 "notes":"Genuine defects found and repaired: see known_findings.json (two fixed: entries, C08 and C12). ./check <ID> quick|thorough; ./check <ID> --replay <file>.",
 "not_applicable":[{"property_id":p,"reason":NA_REASON} for p in PROPS if p not in C]}
json.dump(m,open('/verif/MANIFEST.json','w'),indent=1)
print(len(checks),'checks;',len(m['not_applicable']),'not yet')
