#!/usr/bin/env python3
"""Regenerates /verif/MANIFEST.json from the table below (single source of truth)."""
import json
PROPS=[json.loads(l)['id'] for l in open('/verif/properties.jsonl')]
# id -> (technique, level text, level note, design section)
C = {
 'C01': ("property-based testing: proptest over choice bytes decoded into circuit programs (small, large up to 130 gates, wide up to hundreds of constraints/commitments, custom Pedersen bases, party capacities), constraints spelled before their variables exist, every linear combination spelled through a rotating part of the operator set (incl. terms over Variable::Phantom), chained second proofs, restated / extended rows, plus fixed extreme statements (65 540 commitments, 70 000 constraints, multiply operands of 257 .. 66 001 terms; thorough: 127..1024 gates); oracle = independent circuit model (model says satisfied => prove Ok and verify Ok)",
         "Generated-input search with shrinking over circuit programs (call sequences, both phases, scalar classes over the full field, three curves, independent capacities). Every accepted case was judged satisfied by an independent interpreter, so a reject is a completeness failure. Exploration, not proof: it samples thousands of shapes the suite never builds (single allocation path, zero gates, mixed phases, threshold capacities).",
         "Trusted: the circuit model (harness/src/model.rs), arkworks curve arithmetic, the vendored instrumented merlin (bit-compatible, KAT-checked).", "3/C01"),
 'C02': ("property-based testing: generated programs with injected violations (linear, constant-only, committed-only, gate via guarded hook, cancelling pairs, violated forward-reference constraints without a constant term, near-miss witnesses that satisfy a constraint with one term sign-flipped / dropped / doubled, X − Y = 0 for confusable variables, single violations far out incl. one term of a 66 000-term constraint), also through batch_verify (alone and beside the opposite violation) + exhaustive position sweeps of cancelling pairs (adjacent and block-distance pairs over 1100 constraint positions and 64/256 gate positions); oracle = model lists a violated row/gate => verify Err",
         "Generated bad witnesses pushed through the unmodified prover; the model decides which rows/gates the final assignment violates; any acceptance is a soundness failure. Covers enumerated violation classes incl. cancelling pairs that survive a degenerate z^q / y^n weighting.",
         "Trusted: circuit model; false-accept probability 2^-240 ignored; hook verif_overwrite_gate only overwrites the prover's assignment.", "3/C02"),
 'C08': ("bounded exhaustive grid over (|L|,|R|, gates, fill, scalars, mode) + proptest over structurally arbitrary proof objects, raw and mutated byte strings, every public decode path (compressed / uncompressed, checked / unchecked, containers: empty, Option, nested, up to 1001 members with a 9000-round member under the heap bound) (+ libFuzzer c08_decode_verify with ASan in the thorough tier); oracle = no panic (catch_unwind), no death of the process (case-in-progress breadcrumbs traced back by ./check), Ok/Err only, decode heap <= 64*len+64KiB, verify heap <= 16MiB+4KiB*len",
         "Robustness exploration: exhaustive length grid and generated hostile inputs against decode / verify / batch_verify with a panic and heap oracle.",
         "Trusted: catch_unwind sees every panic in the panic=unwind harness build (debug assertions and overflow checks on); counting global allocator.", "3/C08"),
 'C11': ("property-based testing: round-trip / size-law / verdict-equality over proofs of generated programs; exhaustive strict-prefix enumeration; crafted single-field invalid encodings at every scalar and point slot, cancelling small-order pairs, uncompressed mode round trip and off-curve points in that mode, k = 12/13, hostile counts, unequal lists, zorro points with chosen boundary y-coordinates (+ libFuzzer c11_roundtrip in the thorough tier)",
         "Round-trip and rejection checks over generated proofs (k=0..8), exhaustive prefixes for a subset, and crafted invalid encodings (non-canonical scalars, off-curve, invalid flags, small-order offsets) at every position.",
         "Trusted: the mirror layout (11 points, 3 scalars, two length-prefixed lists, 2 scalars); candidates are confirmed invalid independently before asking the proof decoder.", "3/C11"),
 'C12': ("model-based property testing: histories of new/increase_capacity/serialization round-trips compared with a history-free reference derivation; distinctness, subgroup, pinned digests, cross-process digest, 300 / 65 600 parties, views consumed through nth / skip / step_by / count / last, clone_from, one step beyond 2^17 generators",
         "Stateful generated histories against a reference table; all (n,m) views incl. n=0/m=0; pinned digests from the reference revision.",
         "Trusted: the curve's point sampler (shared with the code under test); SHA3/ChaCha crates.", "3/C12"),
 'C13': ("property-based testing: (v,r) over the full field (boundary classes, limb patterns, random) and arbitrary bases (incl. equal, swapped, identity (either base), small-order-component and dependent bases B̃ = k·B with openings v = ±k·r) against an independent double-and-add reference and the homomorphism laws; Prover::commit in runs interleaved with gates and constraints",
         "Algebraic laws and a differential reference over generated openings and bases.", "Trusted: point addition/doubling of arkworks.", "3/C13"),
 'C15': ("property-based testing: generated expression trees over every operator impl (incl. term lists of hundreds of terms, running sums of up to 9 100 steps, variables with indices beyond 2^16, constraints spelled before the variables exist with hand-built handles, expressions as multiply operands); oracle = own tree evaluation; accept at the reference value, reject at value+delta",
         "Every operator impl is exercised by generated trees whose meaning is decided by an independent evaluator through the prove/verify verdict.",
         "Trusted: own evaluator; C01/C02 behaviour of the proof system on one-constraint circuits.", "3/C15"),
 'C16': ("model-based property testing: generated call sequences (up to hundreds of calls, and sequences crossing gate index 2^16 / 2^17 / 2^18); call-by-call handle equality prover = verifier = allocation state machine; missing-assignment error that leaves no trace (gate count unchanged, recovery continues as the plain sequence)",
         "Stateful comparison of returned Variables and gate counts after every call, both phases.", "Trusted: allocation model written from the trait docs.", "3/C16"),
 'C17': ("exhaustive enumeration of (n1, n2, prover capacity, verifier capacity, mode, party capacity) grid plus large thresholds, honest and malformed proofs; oracle = threshold predicate and capacity-independence of proof bytes and verdict",
         "The whole finite grid the property names is enumerated on all three curves.", "Trusted: threshold formula from the property text.", "3/C17"),
}

C.update({
 'C03': ("differential property-based testing: honest / bad-witness / field-edited / shape-edited / identity-crafted (scripted prover RNG) proofs, proofs of a clean-room prover deviating in exactly one term, compensating pair edits; oracle = clean-room unbatched verifier (a)∧(b)∧(c) with explicit generator folding, challenges by position from the real run (own Fiat–Shamir transcript as fallback; unaltered proofs additionally under the challenges of the transcript they were made on)",
         "Two-sided differential against an independent reference verifier over generated statements and attacker-shaped proofs; includes relation-satisfying proofs with an identity mandatory point, the inputs on which a forgotten identity check shows.",
         "Trusted: refverify.rs and the circuit model; challenge-bytes -> scalar conversion replicated from the wire protocol.", "3/C03"),
 'C04': ("exhaustive single-bit flips of accepted proofs + proptest-generated single-field edits / swaps / one-sided list growth / round edits / byte edits / compensating pair edits built from the honest run's coefficients, opposite copies in a batch, verifier holding a generator object that overstates its capacity (+ libFuzzer c04_malleate in the thorough tier); oracle = decode error or verification error or identical object",
         "Mutation of accepted proofs: all bit flips of several proofs per curve, and generated structured edits through the mirror.",
         "Trusted: mirror layout; 'identical object' = re-encodes to the original bytes. Forgery resistance beyond the enumerated edits is a cryptographic assumption.", "3/C04"),
 'C05': ("metamorphic property-based testing: accepted (program, proof) × one verifier-side statement/context deviation (commitments replaced by V+B, V+B̃, random, another V, −V, mirror point, 2V, V+T, off-curve object with the same compressed encoding; changed multiply operands; weight probe over 25 000 / 300 000 contexts; extra / missing / reordered commitments; coefficients and constants; labels and application data incl. ~80-byte labels sharing a 64-byte prefix; bases), checked through verify and through batch_verify (alone, beside the honest instance, with the opposite deviation); oracle = circuit model says unsatisfied or the deviation changes bound context => verify Err; cross-verification of same-structure statements",
         "Every deviation class the property names is generated; deviations the committed values still satisfy carry no expectation.",
         "Trusted: circuit model for 'unsatisfied'.", "3/C05"),
 'C06': ("trace-invariant property testing over the instrumented Merlin log: protocol schedule as ordered required subsequence with full payload encodings, no early/extra challenge, application challenge labels passed on exactly, separators of a statement and of its one-phase part differ, prover ops == verifier ops, returned transcripts agree, fork for the combination weight after the last message, verifier runs on altered proofs absorb the altered elements",
         "Observation of every transcript operation of both roles on generated programs (one/two phase, user data, bad witnesses) against the schedule as data.",
         "Trusted: vendored merlin instrumentation (additive, KAT-checked against the registry crate); schedule.rs as the protocol order.", "3/C06"),
 'C07': ("differential property-based testing: generated batches (mixed sizes/phases/order, invalid members at all positions, cancelling ±d sets, capacity-insufficient members, long batches, clean-room-prover members incl. partially filled / balanced second-phase slots) + distance sweep of a cancelling pair inside batches of up to 520 members, weight-ratio sweep, binomial error patterns at equally spaced positions, pairs a multiple of 2^10 apart in batches up to 8192, batches of 1 025 .. 20 011 members with one invalid member; oracle = batch verdict == AND of individual verdicts",
         "Batch vs. conjunction over generated batches including adversarially correlated invalid members.",
         "Trusted: individual verification (C01–C03).", "3/C07"),
 'C09': ("metamorphic + algebraic property testing with a scripted transcript RNG: RNG construction events, seed laws, draw decoding, per-draw +1 sensitivity probes (bijection draw <-> blinding role; every draw of a fixed 70+66-gate circuit, sampled draws of other large circuits), openings against the model witness, recomputed blinding scalars, lower bound on consumed RNG output, blinding-factor sensitivity of the RNG under bases with known discrete-log relation, circuits at scale (4096+ gates, 1025+ commitments; thorough: 16 384 and 32 800 gates in a phase), constant external randomness",
         "Establishes the structure of blinding on generated circuits: each role has its own fresh draw from the transcript-bound RNG; full algebraic opening for padded size 1.",
         "Trusted: instrumented merlin (scripted output only on request); decoding relies on the field sampler's representation and degrades to 'not evaluated'.", "3/C09"),
 'C10': ("differential property-based testing of the inner-product argument for k = 0..7 (plus fixed n = 256/512/1024 instances; thorough k <= 10): create -> k rounds; verify vs explicit-folding reference and closed form; 23 negative edits incl. non-power-of-two claimed lengths, −P and the other point with P's x-coordinate",
         "Generated vectors/factors/bases incl. degenerate rounds; both directions (accept correct openings, reject everything else) against a reference verifier.",
         "Trusted: refverify::ref_ipp; access through the guarded re-export.", "3/C10"),
 'C14': ("property-based testing + independent big-integer arithmetic: source literals vs compiled constants, agreement of every declaration of the two field moduli (types, Montgomery configurations, curve configuration), Miller–Rabin, curve equation, r·P = O on generated points (own affine arithmetic and compiled), Hasse-interval uniqueness, mul_by_a on generated field elements incl. elements chosen by their Montgomery residue, multiples k·P for integers k beyond r (also 2^256 − small), multi-scalar sums of up to 16 384 / 40 000 terms",
         "Number-theoretic facts checked with independent big-int code; universally quantified parts (mul_by_a, r·P) by generated inputs.",
         "Trusted: num-bigint; Miller–Rabin error < 4^-76; Hasse bound.", "3/C14"),
 'C18': ("replay of 99 recorded fixtures (verdicts, wrong statements, transcript logs, field layout, generator digests) + differential property-based testing against the frozen reference revision in both directions",
         "Recorded reference behaviour is replayed exhaustively; fresh programs are exchanged with a compiled copy of the reference revision.",
         "Trusted: vendor/refrev is an unmodified copy of b4846a6; fixtures recorded by it.", "3/C18"),
})

NA_REASON = "check under construction in this session (design in DESIGN.md section 3); not yet registered"
checks=[]
for p in PROPS:
    if p in C:
        t,text,note,ref=C[p]
        checks.append({"property_id":p,"quick_cmd":f"./check {p} quick","thorough_cmd":f"./check {p} thorough",
          "evidence_file":f"/verif/evidence/{p}.json","replay_cmd_template":f"./check {p} --replay {{path}}",
          "engine":"verif-harness","level_claimed":{"category":"exploration","text":text,"design_ref":"DESIGN.md section "+ref},
          "level_note":note,"technique":t})
m={"version":1,
 "setup_cmd":"cd /verif/harness && CARGO_NET_OFFLINE=true cargo build --release",
 "hooks":{"guard":"cargo feature `verif-hooks` of ark-bulletproofs","enable":"/verif/harness/Cargo.toml depends on /repo by path with features=[\"verif-hooks\"]; every ./check rebuilds the harness (and thus /repo's working tree) first","baseline_off_cmd":"cd /repo && cargo test --workspace --no-fail-fast --offline","source_commits":["dead9de"],"add_only":True},
 "engines":[{"name":"verif-harness","path":"/verif/harness","serves_properties":sorted(C.keys()),"kind_free_text":"Rust binary: proptest 1.11 TestRunner over choice bytes (16 workers, fixed seeds from VERIF_SEED), exhaustive enumerators, independent circuit model, instrumented merlin, mirror of the proof layout"}],
 "checks":checks,
 "notes":"Genuine defects found and repaired: see known_findings.json (two fixed: entries, C08 and C12). ./check <ID> quick|thorough; ./check <ID> --replay <file>.",
 "not_applicable":[{"property_id":p,"reason":NA_REASON} for p in PROPS if p not in C]}
json.dump(m,open('/verif/MANIFEST.json','w'),indent=1)
print(len(checks),'checks;',len(m['not_applicable']),'not yet')
