#!/bin/bash
# tools/seeded_revalidate.sh <seed-id>...   re-validates kept seeds (seeded/<seed-id>/) against their own check
cd /verif
for sid in "$@"; do
  out=/verif/seeded/$sid
  id=${sid%%-*}
  feat=""
  grep -q "verif_hooks" $out/seed_demo.rs && feat="--features verif-hooks"
  echo "## $sid"
  DEMO_FEATURES="$feat" SEED_OUT=$out tools/seeded_validate.sh $sid /nonexistent $id 2>&1 | grep -v "conda\|same file" | tail -4
done
